"""Descriptor -> Z3 term in a *private* context, and equivalence checking.  Never imports claripy."""
from __future__ import annotations

import random

import z3

from . import bvsem
from .bvsem import base

_ctx = None


def ctx():
    global _ctx
    if _ctx is None:
        _ctx = z3.Context()
    return _ctx


def reset_ctx():
    global _ctx
    _ctx = z3.Context()
    return _ctx


def term(d, w_hint=None):
    c = ctx()
    o = base(d[0])
    if o == "bvs":
        return z3.BitVec(d[1], d[2], ctx=c)
    if o == "bvv":
        return z3.BitVecVal(d[1], d[2], ctx=c)
    if o == "bools":
        return z3.Bool(d[1], ctx=c)
    if o in ("boolv", "pybool"):
        return z3.BoolVal(bool(d[1]), ctx=c)
    if o == "int":
        return z3.BitVecVal(d[1] & bvsem.mask(w_hint), w_hint, ctx=c)
    if o == "b2bv":
        return z3.If(term(d[1]), z3.BitVecVal(1, w_hint, ctx=c), z3.BitVecVal(0, w_hint, ctx=c), ctx=c)
    if o in bvsem.BIN:
        w = bvsem._first_width(d[1:])
        a, b = term(d[1], w), term(d[2], w)
        return {
            "add": lambda: a + b,
            "sub": lambda: a - b,
            "mul": lambda: a * b,
            "udiv": lambda: z3.UDiv(a, b),
            "urem": lambda: z3.URem(a, b),
            "sdiv": lambda: a / b,
            "srem": lambda: z3.SRem(a, b),
            "and": lambda: a & b,
            "or": lambda: a | b,
            "xor": lambda: a ^ b,
            "shl": lambda: a << b,
            "ashr": lambda: a >> b,
            "lshr": lambda: z3.LShR(a, b),
            "rol": lambda: z3.RotateLeft(a, b),
            "ror": lambda: z3.RotateRight(a, b),
        }[o]()
    if o == "neg":
        return -term(d[1])
    if o == "inv":
        return ~term(d[1])
    if o == "reverse":
        a = term(d[1])
        w = a.size()
        if w == 8:
            return a
        return z3.Concat(*[z3.Extract(i + 7, i, a) for i in range(0, w, 8)])
    if o == "concat":
        parts = [term(a) for a in d[1:]]
        return parts[0] if len(parts) == 1 else z3.Concat(*parts)
    if o == "extract":
        return z3.Extract(d[1], d[2], term(d[3]))
    if o == "zext":
        return z3.ZeroExt(d[1], term(d[2])) if d[1] else term(d[2])
    if o == "sext":
        return z3.SignExt(d[1], term(d[2])) if d[1] else term(d[2])
    if o in bvsem.CMP:
        w = bvsem._first_width(d[1:])
        a, b = term(d[1], w), term(d[2], w)
        return {
            "eq": lambda: a == b,
            "ne": lambda: a != b,
            "ult": lambda: z3.ULT(a, b),
            "ule": lambda: z3.ULE(a, b),
            "ugt": lambda: z3.UGT(a, b),
            "uge": lambda: z3.UGE(a, b),
            "slt": lambda: a < b,
            "sle": lambda: a <= b,
            "sgt": lambda: a > b,
            "sge": lambda: a >= b,
        }[o]()
    if o == "band":
        return z3.And(*[term(a) for a in d[1:]]) if len(d) > 2 else term(d[1])
    if o == "bor":
        return z3.Or(*[term(a) for a in d[1:]]) if len(d) > 2 else term(d[1])
    if o == "bnot":
        return z3.Not(term(d[1]))
    if o == "beq":
        return term(d[1]) == term(d[2])
    if o == "bne":
        return term(d[1]) != term(d[2])
    if o == "ite":
        if bvsem.is_bool(d):
            return z3.If(term(d[1]), term(d[2]), term(d[3]), ctx=c)
        w = bvsem._first_width(d[2:])
        return z3.If(term(d[1]), term(d[2], w), term(d[3], w), ctx=c)
    raise ValueError(f"unknown op {d[0]}")


# ---------------------------------------------------------------------------------------------


def same_sort(a, b):
    return a.sort().eq(b.sort())


def free_consts(t, acc=None, seen=None):
    acc = {} if acc is None else acc
    seen = set() if seen is None else seen
    stack = [t]
    while stack:
        x = stack.pop()
        i = x.get_id()
        if i in seen:
            continue
        seen.add(i)
        if z3.is_const(x) and x.decl().kind() == z3.Z3_OP_UNINTERPRETED:
            acc[x.decl().name()] = x
        else:
            stack.extend(x.children())
    return acc


def _boundary_values(w, rng, n):
    vals = {0, 1, (1 << w) - 1, 1 << (w - 1), (1 << (w - 1)) - 1, w & ((1 << w) - 1)}
    while len(vals) < min(n + 6, 1 << w):  # widths <= 3 have fewer than n + 6 values
        vals.add(rng.getrandbits(w))
    return list(vals)


def sampled_disagreement(a, b, rng, n=48):
    """Evaluate both terms under n assignments (pure Z3 substitute+simplify).  Returns a
    disagreeing assignment or None."""
    consts = free_consts(a)
    free_consts(b, consts)
    c = ctx()
    for _ in range(n):
        subs, asg = [], {}
        for name, k in consts.items():
            s = k.sort()
            if z3.is_bv_sort(s):
                v = rng.choice(_boundary_values(s.size(), rng, 4))
                subs.append((k, z3.BitVecVal(v, s.size(), ctx=c)))
            elif s.kind() == z3.Z3_BOOL_SORT:
                v = rng.random() < 0.5
                subs.append((k, z3.BoolVal(v, ctx=c)))
            else:
                return None
            asg[name] = v
        va = z3.simplify(z3.substitute(a, *subs)) if subs else z3.simplify(a)
        vb = z3.simplify(z3.substitute(b, *subs)) if subs else z3.simplify(b)
        if not va.eq(vb) and (z3.is_bv_value(va) or z3.is_true(va) or z3.is_false(va)):
            if z3.is_bv_value(vb) or z3.is_true(vb) or z3.is_false(vb):
                return asg
    return None


def model_to_json(m):
    out = {}
    for d in m.decls():
        v = m[d]
        try:
            if z3.is_bv_value(v):
                out[d.name()] = v.as_long()
            elif z3.is_true(v) or z3.is_false(v):
                out[d.name()] = z3.is_true(v)
            else:
                out[d.name()] = str(v)
        except Exception:  # noqa: BLE001
            out[d.name()] = str(v)
    return out


def equivalent(a, b, timeout_ms=2000, rng=None, hyp=None):
    """-> ("eq", None) | ("neq", assignment) | ("sampled", None) | ("sort", msg)

    hyp: optional list of Z3 Bool terms assumed (equivalence relative to hypotheses)."""
    if not same_sort(a, b):
        return "sort", f"{a.sort()} vs {b.sort()}"
    if a.eq(b):
        return "eq", None
    s = z3.SolverFor("QF_BV", ctx=ctx()) if _is_bvish(a) and _is_bvish(b) and not hyp else z3.Solver(ctx=ctx())
    s.set("timeout", timeout_ms)
    if hyp:
        s.add(*hyp)
    s.add(a != b)
    r = s.check()
    if r == z3.unsat:
        return "eq", None
    if r == z3.sat:
        return "neq", model_to_json(s.model())
    rng = rng or random.Random(0)
    asg = sampled_disagreement(a, b, rng) if not hyp else None
    if asg is not None:
        return "neq", asg
    return "sampled", None


def _is_bvish(t):
    """every sub-term is bit-vector or Boolean sorted (only then may the QF_BV solver be used: it treats
    floating-point and sequence operators as uninterpreted functions, and a 'sat' it reports for a Boolean term
    over floats or strings is not a counterexample)"""
    seen = set()
    stack = [t]
    while stack:
        x = stack.pop()
        i = x.get_id()
        if i in seen:
            continue
        seen.add(i)
        if x.sort().kind() not in (z3.Z3_BV_SORT, z3.Z3_BOOL_SORT):
            return False
        if z3.is_app(x):
            if x.decl().kind() == z3.Z3_OP_UNINTERPRETED and x.num_args():
                return False
            stack.extend(x.children())
    return True


def is_valid(t, hyp=(), timeout_ms=2000):
    """-> True (valid under hyp), False (countermodel exists), None (unknown)."""
    s = z3.Solver(ctx=ctx())
    s.set("timeout", timeout_ms)
    for h in hyp:
        s.add(h)
    s.add(z3.Not(t))
    r = s.check()
    if r == z3.unsat:
        return True, None
    if r == z3.sat:
        return False, model_to_json(s.model())
    return None, None


def is_sat(ts, timeout_ms=4000):
    s = z3.Solver(ctx=ctx())
    s.set("timeout", timeout_ms)
    s.add(*ts)
    r = s.check()
    if r == z3.sat:
        return True, s.model()
    if r == z3.unsat:
        return False, None
    return None, None


def import_term(t):
    """Move a Z3 term built in another context (claripy's) into the private one."""
    return t.translate(ctx())
