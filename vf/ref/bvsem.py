"""Pure-Python SMT-LIB semantics for the BV/Bool descriptor language.  Never imports claripy.

Descriptor nodes are JSON lists:
  ["bvs", name, w] ["bvv", v, w] ["bools", name] ["boolv", b]
  ["int", v]            a Python int written by the caller (takes the sibling's width)
  ["pybool", b]         a Python bool written by the caller
  ["b2bv", boolnode]    a Bool passed where a BV is expected (claripy coerces to If(b,1,0))
  [binop, a, b]         add sub mul udiv urem sdiv srem and or xor shl ashr lshr rol ror
  ["neg", a] ["inv", a]
  ["concat", a, b, ...] ["extract", hi, lo, a] ["zext", n, a] ["sext", n, a] ["reverse", a]
  [cmp, a, b]           eq ne ult ule ugt uge slt sle sgt sge      -> Bool
  ["band", ...] ["bor", ...] ["bnot", a] ["beq", a, b] ["bne", a, b]
  ["ite", c, a, b]
An op name may carry a surface variant after '@' (e.g. "ult@py", "extract@slice"); it does not
change the meaning, only how the claripy object is built.
"""
from __future__ import annotations

BIN = {"add", "sub", "mul", "udiv", "urem", "sdiv", "srem", "and", "or", "xor", "shl", "ashr", "lshr", "rol", "ror"}
CMP = {"eq", "ne", "ult", "ule", "ugt", "uge", "slt", "sle", "sgt", "sge"}
BOOLOPS = {"band", "bor", "bnot", "beq", "bne"}


class DivByZero(Exception):
    pass


def base(op):
    return op.split("@", 1)[0]


def is_bool(d):
    o = base(d[0])
    if o in ("bools", "boolv", "pybool") or o in CMP or o in BOOLOPS:
        return True
    if o == "ite":
        return is_bool(d[2]) if base(d[2][0]) != "int" else is_bool(d[3])
    return False


def width(d):
    """Width of a BV-sorted descriptor (None for ["int", v], which inherits)."""
    o = base(d[0])
    if o in ("bvs", "bvv"):
        return d[2]
    if o == "int":
        return None
    if o == "b2bv":
        return None
    if o in BIN:
        return _first_width(d[1:])
    if o in ("neg", "inv", "reverse"):
        return width(d[1])
    if o == "concat":
        return sum(width(a) for a in d[1:])
    if o == "extract":
        return d[1] - d[2] + 1
    if o in ("zext", "sext"):
        return d[1] + width(d[2])
    if o == "ite":
        return _first_width(d[2:])
    raise ValueError(f"width of {d[0]}")


def _first_width(args):
    for a in args:
        w = width(a)
        if w is not None:
            return w
    return None


def mask(w):
    return (1 << w) - 1


def signed(v, w):
    return v - (1 << w) if w and (v >> (w - 1)) & 1 else v


def variables(d, acc=None):
    acc = {} if acc is None else acc
    o = base(d[0])
    if o == "bvs":
        acc[d[1]] = ("bv", d[2])
    elif o == "bools":
        acc[d[1]] = ("bool",)
    elif o in ("bvv", "boolv", "int", "pybool"):
        pass
    else:
        for a in d[1:]:
            if isinstance(a, list):
                variables(a, acc)
    return acc


def bvop(o, a, b, w):
    m = mask(w)
    if o == "add":
        return (a + b) & m
    if o == "sub":
        return (a - b) & m
    if o == "mul":
        return (a * b) & m
    if o == "udiv":
        return m if b == 0 else a // b
    if o == "urem":
        return a if b == 0 else a % b
    if o == "sdiv":
        sa, sb = signed(a, w), signed(b, w)
        if sb == 0:
            return (1 if sa < 0 else m) & m
        q = abs(sa) // abs(sb)
        if (sa < 0) != (sb < 0):
            q = -q
        return q & m
    if o == "srem":
        sa, sb = signed(a, w), signed(b, w)
        if sb == 0:
            return a
        r = abs(sa) % abs(sb)
        if sa < 0:
            r = -r
        return r & m
    if o == "and":
        return a & b
    if o == "or":
        return a | b
    if o == "xor":
        return a ^ b
    if o == "shl":
        return 0 if b >= w else (a << b) & m
    if o == "lshr":
        return 0 if b >= w else a >> b
    if o == "ashr":
        sa = signed(a, w)
        return (sa >> min(b, w)) & m if b < w else ((-1 if sa < 0 else 0) & m)
    if o == "rol":
        r = b % w if w else 0
        return ((a << r) | (a >> (w - r))) & m if r else a
    if o == "ror":
        r = b % w if w else 0
        return ((a >> r) | (a << (w - r))) & m if r else a
    raise ValueError(o)


def cmpop(o, a, b, w):
    if o == "eq":
        return a == b
    if o == "ne":
        return a != b
    if o == "ult":
        return a < b
    if o == "ule":
        return a <= b
    if o == "ugt":
        return a > b
    if o == "uge":
        return a >= b
    sa, sb = signed(a, w), signed(b, w)
    if o == "slt":
        return sa < sb
    if o == "sle":
        return sa <= sb
    if o == "sgt":
        return sa > sb
    if o == "sge":
        return sa >= sb
    raise ValueError(o)


def ev(d, env, w_hint=None, strict_div=False):
    """Value of descriptor d under env (name -> int | bool).

    strict_div: raise DivByZero when a division/remainder has divisor 0 (used for the
    concrete-fold comparison, where claripy raises instead of returning a value)."""
    o = base(d[0])
    if o == "bvs":
        return env[d[1]] & mask(d[2])
    if o == "bvv":
        return d[1] & mask(d[2])
    if o == "bools":
        return bool(env[d[1]])
    if o in ("boolv", "pybool"):
        return bool(d[1])
    if o == "int":
        return d[1] & mask(w_hint)
    if o == "b2bv":
        return 1 & mask(w_hint) if ev(d[1], env, strict_div=strict_div) else 0
    if o in BIN:
        w = _first_width(d[1:])
        a = ev(d[1], env, w, strict_div)
        b = ev(d[2], env, w, strict_div)
        if strict_div and b == 0 and o in ("udiv", "urem", "sdiv", "srem"):
            raise DivByZero
        return bvop(o, a, b, w)
    if o == "neg":
        w = width(d[1])
        return (-ev(d[1], env, w, strict_div)) & mask(w)
    if o == "inv":
        w = width(d[1])
        return ev(d[1], env, w, strict_div) ^ mask(w)
    if o == "reverse":
        w = width(d[1])
        v = ev(d[1], env, w, strict_div)
        return int.from_bytes(v.to_bytes(w // 8, "big"), "little")
    if o == "concat":
        r = 0
        for a in d[1:]:
            wa = width(a)
            r = (r << wa) | ev(a, env, wa, strict_div)
        return r
    if o == "extract":
        hi, lo = d[1], d[2]
        return (ev(d[3], env, None, strict_div) >> lo) & mask(hi - lo + 1)
    if o == "zext":
        return ev(d[2], env, None, strict_div)
    if o == "sext":
        w = width(d[2])
        return signed(ev(d[2], env, w, strict_div), w) & mask(w + d[1])
    if o in CMP:
        w = _first_width(d[1:])
        return cmpop(o, ev(d[1], env, w, strict_div), ev(d[2], env, w, strict_div), w)
    if o == "band":
        return all([ev(a, env, strict_div=strict_div) for a in d[1:]])
    if o == "bor":
        return any([ev(a, env, strict_div=strict_div) for a in d[1:]])
    if o == "bnot":
        return not ev(d[1], env, strict_div=strict_div)
    if o == "beq":
        return ev(d[1], env, strict_div=strict_div) == ev(d[2], env, strict_div=strict_div)
    if o == "bne":
        return ev(d[1], env, strict_div=strict_div) != ev(d[2], env, strict_div=strict_div)
    if o == "ite":
        c = ev(d[1], env, strict_div=strict_div)
        if is_bool(d):
            # both arms are evaluated in strict mode: claripy folds eagerly
            t = ev(d[2], env, strict_div=strict_div)
            f = ev(d[3], env, strict_div=strict_div)
            return t if c else f
        w = _first_width(d[2:])
        t = ev(d[2], env, w, strict_div)
        f = ev(d[3], env, w, strict_div)
        return t if c else f
    raise ValueError(f"unknown op {d[0]}")


def subst(d, env):
    """Replace every variable leaf by the constant env gives it (descriptor -> descriptor)."""
    o = base(d[0])
    if o == "bvs":
        return ["bvv", env[d[1]] & mask(d[2]), d[2]]
    if o == "bools":
        return ["boolv", bool(env[d[1]])]
    if o in ("bvv", "boolv", "int", "pybool"):
        return d
    return [d[0]] + [subst(a, env) if isinstance(a, list) else a for a in d[1:]]


def size(d):
    if not isinstance(d, list):
        return 0
    return 1 + sum(size(a) for a in d[1:] if isinstance(a, list))


def ops_in(d, acc=None):
    acc = set() if acc is None else acc
    acc.add(d[0])
    for a in d[1:]:
        if isinstance(a, list):
            ops_in(a, acc)
    return acc
