"""Stateless reference solver over descriptor constraints.  Never imports claripy.

A Universe fixes the variables (name -> ("bv", w) | ("bool",)).  Every query is answered from
scratch: with <= MAX_BITS variable bits by enumerating all assignments with the pure-Python
semantics (no SMT solver involved), otherwise by a fresh Z3 solver in the private context."""
from __future__ import annotations

import itertools

import z3

from . import bvsem, z3ref

MAX_BITS = 13


class Universe:
    def __init__(self, vars_):
        self.vars = dict(vars_)  # name -> sort
        self.names = sorted(self.vars)
        self.bits = sum(1 if s[0] == "bool" else s[1] for s in self.vars.values())
        self.small = self.bits <= MAX_BITS
        self._all = None

    def all_envs(self):
        if self._all is None:
            doms = [range(2) if self.vars[n][0] == "bool" else range(1 << self.vars[n][1]) for n in self.names]
            self._all = [
                {n: (bool(v) if self.vars[n][0] == "bool" else v) for n, v in zip(self.names, combo)} for combo in itertools.product(*doms)
            ]
        return self._all

    def extend_for(self, descs):
        """variables mentioned in descs but not in the universe (queries may mention fresh ones)"""
        extra = {}
        for d in descs:
            for n, s in bvsem.variables(d).items():
                if n not in self.vars:
                    extra[n] = s
        if not extra:
            return self
        u = Universe({**self.vars, **extra})
        return u


_memo: dict = {}
_MEMO_MAX = 4000


def _key(uni, cons):
    return (tuple(uni.names), tuple(repr(c) for c in cons))


def _models(uni, cons):
    """Model set by enumeration.  Pure function of (universe, constraints); memoised, and computed from the
    memoised model set of the longest known prefix (filtering is the same computation, only cheaper)."""
    k = _key(uni, cons)
    if k in _memo:
        return _memo[k]
    base = None
    for cut in range(len(cons) - 1, -1, -1):
        kk = _key(uni, cons[:cut])
        if kk in _memo:
            base = (_memo[kk], cons[cut:])
            break
    if base is None:
        base = (uni.all_envs(), cons)
    envs, rest = base
    out = [env for env in envs if all(bvsem.ev(c, env) for c in rest)]
    if len(_memo) > _MEMO_MAX:
        _memo.clear()
    _memo[k] = out
    return out


class Answer:
    """model set of constraints (small universes) or a Z3 handle (large)"""

    def __init__(self, uni, cons):
        self.uni = uni.extend_for(cons)
        self.cons = list(cons)
        self.models = None
        if self.uni.small:
            self.models = _models(self.uni, self.cons)

    # --- queries -----------------------------------------------------------------
    def sat(self):
        if self.models is not None:
            return bool(self.models)
        r, _ = z3ref.is_sat([z3ref.term(c) for c in self.cons], timeout_ms=20000)
        return r

    def _with(self, e_descs):
        """Answer over a universe that also contains the variables of the query expressions"""
        u2 = self.uni.extend_for(e_descs)
        if u2 is self.uni:
            return self
        return Answer(u2, self.cons)

    def values(self, e, limit=None):
        """set of values e takes over the model set (small) or up to `limit` values (Z3)"""
        a = self._with([e])
        if a.models is not None:
            return {bvsem.ev(e, env) for env in a.models}
        return a._z3_values([e], limit or 64, single=True)

    def tuples(self, es, limit=None):
        a = self._with(es)
        if a.models is not None:
            return {tuple(bvsem.ev(e, env) for e in es) for env in a.models}
        return a._z3_values(es, limit or 64, single=False)

    def feasible(self, e, v):
        a = self._with([e])
        if a.models is not None:
            return any(bvsem.ev(e, env) == v for env in a.models)
        T = z3ref.term(e)
        lit = z3.BoolVal(bool(v), ctx=z3ref.ctx()) if bvsem.is_bool(e) else z3.BitVecVal(v, bvsem.width(e), ctx=z3ref.ctx())
        r, _ = z3ref.is_sat([z3ref.term(c) for c in self.cons] + [T == lit], timeout_ms=20000)
        return r

    def feasible_tuple(self, es, vs):
        a = self._with(es)
        if a.models is not None:
            return any(all(bvsem.ev(e, env) == v for e, v in zip(es, vs)) for env in a.models)
        c = z3ref.ctx()
        eqs = []
        for e, v in zip(es, vs):
            T = z3ref.term(e)
            eqs.append(T == (z3.BoolVal(bool(v), ctx=c) if bvsem.is_bool(e) else z3.BitVecVal(v, bvsem.width(e), ctx=c)))
        r, _ = z3ref.is_sat([z3ref.term(x) for x in self.cons] + eqs, timeout_ms=20000)
        return r

    def optimum(self, e, is_max, signed):
        """true optimum as an unsigned w-bit pattern, or None if unsat / unknown"""
        w = bvsem.width(e)
        key = (lambda v: bvsem.signed(v, w)) if signed else (lambda v: v)
        a = self._with([e])
        if a.models is not None:
            vals = {bvsem.ev(e, env) for env in a.models}
            if not vals:
                return None
            return max(vals, key=key) if is_max else min(vals, key=key)
        # Z3: decide the optimum bit by bit (w checks).  Signed order on T is unsigned order on T ^ signbit,
        # and a minimum of U is the complement of the maximum of ~U.
        c = z3ref.ctx()
        T = z3ref.term(e)
        base = [z3ref.term(x) for x in self.cons]
        r, _m = z3ref.is_sat(base, timeout_ms=20000)
        if not r:
            return None
        sign = 1 << (w - 1)
        U = T ^ z3.BitVecVal(sign, w, ctx=c) if signed else T
        if not is_max:
            U = ~U
        best = 0
        for bit in reversed(range(w)):
            cand = best | (1 << bit)
            r, _m = z3ref.is_sat(base + [z3.Extract(w - 1, bit, U) == z3.BitVecVal(cand >> bit, w - bit, ctx=c)], timeout_ms=20000)
            if r is None:
                return None
            if r:
                best = cand
        if not is_max:
            best = ~best & ((1 << w) - 1)
        if signed:
            best ^= sign
        return best

    def valid(self, e):
        """e holds in every model"""
        a = self._with([e])
        if a.models is not None:
            return all(bvsem.ev(e, env) for env in a.models)
        r, _ = z3ref.is_valid(z3ref.term(e), hyp=[z3ref.term(x) for x in self.cons], timeout_ms=20000)
        return r

    def _z3_values(self, es, limit, single):
        c = z3ref.ctx()
        s = z3.Solver(ctx=c)
        s.set("timeout", 20000)
        for x in self.cons:
            s.add(z3ref.term(x))
        Ts = [z3ref.term(e) for e in es]
        out = set()
        while len(out) < limit and s.check() == z3.sat:
            m = s.model()
            vals = []
            for e, T in zip(es, Ts):
                v = m.eval(T, model_completion=True)
                vals.append(z3.is_true(v) if bvsem.is_bool(e) else v.as_long())
            out.add(vals[0] if single else tuple(vals))
            s.add(z3.Or(*[T != m.eval(T, model_completion=True) for T in Ts]))
        return out


def model_set_key(uni, cons):
    """frozenset of satisfying assignments (small universes only): exact model-set identity"""
    a = Answer(uni, cons)
    if a.models is None:
        return None
    return frozenset(tuple(sorted(env.items())) for env in a.models)
