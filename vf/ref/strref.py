"""String descriptor language -> Z3 sequence-theory terms (private context).  Never imports claripy.

  ["strv", [code points]]  ["strs", name]
  ["sconcat", a, b, ...]  ["ssubstr", start_bv, count_bv, s]  ["sreplace", s, t, r]  ["inttostr", bv]   -> String
  ["slen", s]  ["sindexof", s, t, start_bv]  ["stoint", s]                                              -> BV64
  ["scontains", s, t]  ["sprefix", p, s]  ["ssuffix", p, s]  ["seq", a, b]  ["sne", a, b]              -> Bool
BV sub-terms use the bvsem language (64-bit indices).
"""
from __future__ import annotations

import ctypes

import z3

from . import bvsem, z3ref
from .bvsem import base

STR_OPS = {"strv", "strs", "sconcat", "ssubstr", "sreplace", "inttostr"}
BV_OPS = {"slen", "sindexof", "stoint"}
BOOL_OPS = {"scontains", "sprefix", "ssuffix", "seq", "sne"}
MAX_CP = 0x2FFFF


def lit(cps):
    c = z3ref.ctx()
    arr = (ctypes.c_uint * len(cps))(*cps)
    return z3.SeqRef(z3.Z3_mk_u32string(c.ref(), len(cps), arr), c)


def contents(t):
    """code points of a Z3 string literal (None if t is not a literal)"""
    if not (z3.is_string_value(t)):
        return None
    c = t.ctx
    n = z3.Z3_get_string_length(c.ref(), t.as_ast())
    buf = (ctypes.c_uint * n)()
    z3.Z3_get_string_contents(c.ref(), t.as_ast(), n, buf)
    return list(buf)


def sort_of(d):
    o = base(d[0])
    if o in STR_OPS:
        return ("str",)
    if o in BV_OPS:
        return ("bv", 64)
    if o in BOOL_OPS:
        return ("bool",)
    if o == "ite":
        return sort_of(d[2])
    if bvsem.is_bool(d):
        return ("bool",)
    return ("bv", bvsem.width(d))


def term(d):
    c = z3ref.ctx()
    o = base(d[0])
    if o == "strv":
        return lit(d[1])
    if o == "strs":
        return z3.String(d[1], ctx=c)
    if o == "sconcat":
        parts = [term(a) for a in d[1:]]
        return z3.Concat(*parts) if len(parts) > 1 else parts[0]
    if o == "ssubstr":
        return z3.SubString(term(d[3]), z3.BV2Int(term(d[1])), z3.BV2Int(term(d[2])))
    if o == "sreplace":
        return z3.Replace(term(d[1]), term(d[2]), term(d[3]))
    if o == "inttostr":
        return z3.IntToStr(z3.BV2Int(term(d[1])))
    if o == "slen":
        return z3.Int2BV(z3.Length(term(d[1])), 64)
    if o == "sindexof":
        return z3.Int2BV(z3.IndexOf(term(d[1]), term(d[2]), z3.BV2Int(term(d[3]))), 64)
    if o == "stoint":
        return z3.Int2BV(z3.StrToInt(term(d[1])), 64)
    if o == "scontains":
        return z3.Contains(term(d[1]), term(d[2]))
    if o == "sprefix":
        return z3.PrefixOf(term(d[1]), term(d[2]))
    if o == "ssuffix":
        return z3.SuffixOf(term(d[1]), term(d[2]))
    if o == "seq":
        return term(d[1]) == term(d[2])
    if o == "sne":
        return term(d[1]) != term(d[2])
    if o == "ite":
        return z3.If(term(d[1]), term(d[2]), term(d[3]), ctx=c)
    if o in bvsem.CMP:
        a, b = term(d[1]), term(d[2])
        return {"eq": lambda: a == b, "ne": lambda: a != b, "ult": lambda: z3.ULT(a, b), "ule": lambda: z3.ULE(a, b), "ugt": lambda: z3.UGT(a, b), "uge": lambda: z3.UGE(a, b), "slt": lambda: a < b, "sle": lambda: a <= b, "sgt": lambda: a > b, "sge": lambda: a >= b}[o]()
    if o in ("add", "sub"):
        a, b = term(d[1]), term(d[2])
        return a + b if o == "add" else a - b
    return z3ref.term(d)


def has_vars(d):
    if not isinstance(d, list):
        return False
    if base(d[0]) in ("strs", "bvs", "bools"):
        return True
    return any(has_vars(a) for a in d[1:] if isinstance(a, list) and (not a or not isinstance(a[0], int)))


def value(t):
    """python value of a *folded* Z3 term: list of code points | int | bool | None"""
    t = z3.simplify(t)
    if z3.is_string_value(t):
        return contents(t)
    if z3.is_bv_value(t):
        return t.as_long()
    if z3.is_true(t):
        return True
    if z3.is_false(t):
        return False
    return None
