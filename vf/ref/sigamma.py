"""Concretisation of strided intervals, computed from the four stored numbers only.  Never imports claripy.

An abstract value is the tuple  (bits, stride, lb, ub, empty, reversed)  read off the object's public
properties (`si_tuple`).  gamma():

    empty                      -> {}
    stride == 0 or lb == ub    -> {lb}
    otherwise                  -> {(lb + k*stride) mod 2^bits : 0 <= k <= ((ub - lb) mod 2^bits) div stride}

(the progression starts at lb, walks clockwise and stops at the last point that does not pass ub; an upper bound
that is not on the progression - claripy.SI lets callers build these and `_ssplit`/`eval` handle them - bounds
it without being a member).  A reversed interval denotes the byte-swapped image; it is only ever used here for
singletons (byte-reversal of non-constant intervals is documented as unsound and exempt).
"""
from __future__ import annotations


def si_tuple(si):
    return (int(si.bits), int(si.stride), int(si.lower_bound), int(si.upper_bound), bool(si.is_empty), bool(getattr(si, "_reversed", False)))


def bswap(v, bits):
    n = (bits + 7) // 8
    return int.from_bytes(v.to_bytes(n, "big"), "little") & ((1 << bits) - 1)


def count(t):
    bits, stride, lb, ub, empty, _rev = t
    if empty:
        return 0
    if stride == 0 or lb == ub:
        return 1
    return ((ub - lb) % (1 << bits)) // stride + 1


def gamma(t, limit=1 << 16):
    """set of members (small intervals only)"""
    bits, stride, lb, ub, empty, rev = t
    if empty:
        return frozenset()
    m = (1 << bits) - 1
    lb &= m
    ub &= m
    if stride == 0 or lb == ub:
        out = {lb}
    else:
        n = ((ub - lb) & m) // stride + 1
        if n > limit:
            raise ValueError("gamma too large")
        out = {(lb + k * stride) & m for k in range(n)}
    if rev and bits > 8:
        out = {bswap(v, bits) for v in out}
    return frozenset(out)


def member(t, v):
    """arithmetic membership (any width)"""
    bits, stride, lb, ub, empty, rev = t
    if empty:
        return False
    m = (1 << bits) - 1
    v &= m
    if rev and bits > 8:
        v = bswap(v, bits)
    lb &= m
    ub &= m
    if stride == 0 or lb == ub:
        return v == lb
    d = (v - lb) & m
    return d <= ((ub - lb) & m) and d % stride == 0


def kth(t, k):
    bits, stride, lb, ub, empty, rev = t
    v = (lb + k * stride) & ((1 << bits) - 1)
    return bswap(v, bits) if rev and bits > 8 else v


def sample_members(t, rng, n=6):
    """boundary-biased sample of members of a (possibly huge) interval"""
    c = count(t)
    if c == 0:
        return []
    ks = {0, c - 1, min(1, c - 1), max(c - 2, 0), c // 2}
    bits, stride, lb, ub, _e, _r = t
    if stride:
        # members next to the poles (south: wrap-around 2^w-1 -> 0; north: sign change)
        for pole in (0, 1 << (bits - 1)):
            d = (pole - lb) & ((1 << bits) - 1)
            k = d // stride
            for kk in (k - 1, k, k + 1):
                if 0 <= kk < c:
                    ks.add(kk)
    while len(ks) < min(c, n + 5):
        ks.add(rng.randrange(c))
    return [kth(t, k) for k in sorted(ks)]


def classify(t):
    """operand class, read off the code's own case analysis (used for evidence and for known-finding buckets)"""
    bits, stride, lb, ub, empty, rev = t
    if empty:
        return "empty"
    m = (1 << bits) - 1
    if stride == 0 or lb == ub:
        c = "int"
    elif stride == 1 and lb == ((ub + 1) & m):
        c = "top"
    else:
        c = "s1" if stride == 1 else "sk"
        if ((ub - lb) & m) % stride:
            c += "-unaligned"
        north = 1 << (bits - 1)
        wraps_south = ub < lb
        # straddles the north pole: contains both 0111.. and 1000.. side
        crosses_north = ((north - 1 - lb) & m) < ((ub - lb) & m)
        if wraps_south:
            c += "-S"
        if crosses_north:
            c += "-N"
    if rev:
        c += "-rev"
    return c


def all_sis(bits, aligned_only=False, include_unaligned=True):
    """every well-formed (stride, lb, ub) at this width: singletons (stride 0) and stride >= 1 with lb != ub.
    `aligned_only`: ub on the progression."""
    m = 1 << bits
    out = []
    for lb in range(m):
        out.append((bits, 0, lb, lb, False, False))
    for lb in range(m):
        for ub in range(m):
            if ub == lb:
                continue
            span = (ub - lb) % m
            for stride in range(1, m):
                if stride > span:
                    continue  # degenerate: a singleton written as an interval
                al = span % stride == 0
                if aligned_only and not al:
                    continue
                if not include_unaligned and not al:
                    continue
                out.append((bits, stride, lb, ub, False, False))
    return out
