"""FP descriptor language -> Z3 FPA terms (private context).  Never imports claripy.

  ["fpv", bits, S]        IEEE bit pattern (int) in sort S in {"F","D"}
  ["fpv_py", hexfloat, S] a Python float written by the caller (float.hex()), rounded RNE to S
  ["fps", name, S]
  ["fpadd"|"fpsub"|"fpmul"|"fpdiv", rm, a, b]   ["fpsqrt", rm, a]   ["fpneg", a]  ["fpabs", a]
  ["fpeq"|"fpneq"|"fplt"|"fpleq"|"fpgt"|"fpgeq", a, b]  ["fpisnan", a] ["fpisinf", a]   -> Bool
  ["fp2fp", rm, a, S]  ["sbv2fp", rm, bv, S]  ["ubv2fp", rm, bv, S]  ["raw2fp", bv, S]
  ["fp2ieee", a]  ["fp2sbv", rm, a, n]  ["fp2ubv", rm, a, n]  ["fpfp", sgn, exp, sig]
  ["ite", c, a, b] over FP is allowed.
BV/Bool sub-terms use the bvsem language.  rm in {"RNE","RNA","RTZ","RTP","RTN"}.
"""
from __future__ import annotations

import struct

import z3

from . import bvsem, z3ref
from .bvsem import base

RMS = ["RNE", "RNA", "RTZ", "RTP", "RTN"]
FP_VAL_OPS = {"fpv", "fpv_py", "fps", "fpadd", "fpsub", "fpmul", "fpdiv", "fpsqrt", "fpneg", "fpabs", "fp2fp", "sbv2fp", "ubv2fp", "raw2fp", "fpfp"}
FP_BOOL_OPS = {"fpeq", "fpneq", "fplt", "fpleq", "fpgt", "fpgeq", "fpisnan", "fpisinf"}
FP_BV_OPS = {"fp2ieee", "fp2sbv", "fp2ubv"}


def zsort(S):
    c = z3ref.ctx()
    return z3.Float32(c) if S == "F" else z3.Float64(c)


def zrm(rm):
    c = z3ref.ctx()
    return {"RNE": z3.RNE, "RNA": z3.RNA, "RTZ": z3.RTZ, "RTP": z3.RTP, "RTN": z3.RTN}[rm](c)


def nbits(S):
    return 32 if S == "F" else 64


def sort_of(d):
    """-> ("fp", S) | ("bv", w) | ("bool",)"""
    o = base(d[0])
    if o in ("fpv", "fpv_py", "fps"):
        return ("fp", d[2])
    if o in ("fpadd", "fpsub", "fpmul", "fpdiv"):
        return sort_of(d[2])
    if o == "fpsqrt":
        return sort_of(d[2])
    if o in ("fpneg", "fpabs"):
        return sort_of(d[1])
    if o in ("fp2fp", "sbv2fp", "ubv2fp"):
        return ("fp", d[3])
    if o == "raw2fp":
        return ("fp", d[2])
    if o == "fpfp":
        return ("fp", "F" if sum(sort_of(x)[1] for x in d[1:4]) == 32 else "D")
    if o in FP_BOOL_OPS:
        return ("bool",)
    if o == "fp2ieee":
        return ("bv", nbits(sort_of(d[1])[1]))
    if o in ("fp2sbv", "fp2ubv"):
        return ("bv", d[3])
    if o == "ite":
        return sort_of(d[2])
    if o in bvsem.CMP or o in bvsem.BOOLOPS or o in ("bools", "boolv"):
        return ("bool",)
    if o in bvsem.BIN or o in ("neg", "inv", "reverse"):
        return sort_of(d[1])
    if o == "extract":
        return ("bv", d[1] - d[2] + 1)
    if o == "concat":
        return ("bv", sum(sort_of(a)[1] for a in d[1:]))
    if o in ("zext", "sext"):
        return ("bv", d[1] + sort_of(d[2])[1])
    return ("bv", bvsem.width(d))


def py_to_bits(x: float, S):
    if S == "F":
        return struct.unpack("<I", struct.pack("<f", x))[0]
    return struct.unpack("<Q", struct.pack("<d", x))[0]


def bits_to_py(b: int, S):
    if S == "F":
        return struct.unpack("<f", struct.pack("<I", b))[0]
    return struct.unpack("<d", struct.pack("<Q", b))[0]


def term(d):
    c = z3ref.ctx()
    o = base(d[0])
    if o == "fpv":
        return z3.fpBVToFP(z3.BitVecVal(d[1], nbits(d[2]), ctx=c), zsort(d[2]), ctx=c)
    if o == "fpv_py":
        x = float.fromhex(d[1])
        if d[2] == "F":
            try:
                x = struct.unpack("f", struct.pack("f", x))[0]
            except OverflowError:
                x = float("inf") if x > 0 else float("-inf")
        return z3.fpBVToFP(z3.BitVecVal(py_to_bits(x, d[2]), nbits(d[2]), ctx=c), zsort(d[2]), ctx=c)
    if o == "fps":
        return z3.FP(d[1], zsort(d[2]), ctx=c)
    if o == "fpadd":
        return z3.fpAdd(zrm(d[1]), term(d[2]), term(d[3]), ctx=c)
    if o == "fpsub":
        return z3.fpSub(zrm(d[1]), term(d[2]), term(d[3]), ctx=c)
    if o == "fpmul":
        return z3.fpMul(zrm(d[1]), term(d[2]), term(d[3]), ctx=c)
    if o == "fpdiv":
        return z3.fpDiv(zrm(d[1]), term(d[2]), term(d[3]), ctx=c)
    if o == "fpsqrt":
        return z3.fpSqrt(zrm(d[1]), term(d[2]), ctx=c)
    if o == "fpneg":
        return z3.fpNeg(term(d[1]), ctx=c)
    if o == "fpabs":
        return z3.fpAbs(term(d[1]), ctx=c)
    if o == "fpeq":
        return z3.fpEQ(term(d[1]), term(d[2]), ctx=c)
    if o == "fpneq":
        return z3.Not(z3.fpEQ(term(d[1]), term(d[2]), ctx=c))
    if o == "fplt":
        return z3.fpLT(term(d[1]), term(d[2]), ctx=c)
    if o == "fpleq":
        return z3.fpLEQ(term(d[1]), term(d[2]), ctx=c)
    if o == "fpgt":
        return z3.fpGT(term(d[1]), term(d[2]), ctx=c)
    if o == "fpgeq":
        return z3.fpGEQ(term(d[1]), term(d[2]), ctx=c)
    if o == "fpisnan":
        return z3.fpIsNaN(term(d[1]), ctx=c)
    if o == "fpisinf":
        return z3.fpIsInf(term(d[1]), ctx=c)
    if o == "fp2fp":
        return z3.fpFPToFP(zrm(d[1]), term(d[2]), zsort(d[3]), ctx=c)
    if o == "sbv2fp":
        return z3.fpSignedToFP(zrm(d[1]), term(d[2]), zsort(d[3]), ctx=c)
    if o == "ubv2fp":
        return z3.fpUnsignedToFP(zrm(d[1]), term(d[2]), zsort(d[3]), ctx=c)
    if o == "raw2fp":
        return z3.fpBVToFP(term(d[1]), zsort(d[2]), ctx=c)
    if o == "fpfp":
        return z3.fpFP(term(d[1]), term(d[2]), term(d[3]), ctx=c)
    if o == "fp2ieee":
        return z3.fpToIEEEBV(term(d[1]), ctx=c)
    if o == "fp2sbv":
        return z3.fpToSBV(zrm(d[1]), term(d[2]), z3.BitVecSort(d[3], c), ctx=c)
    if o == "fp2ubv":
        return z3.fpToUBV(zrm(d[1]), term(d[2]), z3.BitVecSort(d[3], c), ctx=c)
    if o == "ite":
        return z3.If(term(d[1]), term(d[2]), term(d[3]), ctx=c)
    if o in bvsem.CMP or o in bvsem.BIN or o in ("extract", "concat", "zext", "sext", "neg", "inv", "band", "bor", "bnot", "beq", "bne"):
        # a BV/Bool operator whose children may be FP-derived
        return _mixed(d)
    return z3ref.term(d)


def _mixed(d):
    """BV/Bool operator over children that may contain FP-derived BV/Bool terms."""
    c = z3ref.ctx()
    o = base(d[0])
    kids = [term(a) if isinstance(a, list) else a for a in d[1:]]
    if o in bvsem.CMP:
        a, b = kids
        return {
            "eq": lambda: a == b, "ne": lambda: a != b, "ult": lambda: z3.ULT(a, b), "ule": lambda: z3.ULE(a, b),
            "ugt": lambda: z3.UGT(a, b), "uge": lambda: z3.UGE(a, b), "slt": lambda: a < b, "sle": lambda: a <= b,
            "sgt": lambda: a > b, "sge": lambda: a >= b,
        }[o]()
    if o in bvsem.BIN:
        a, b = kids
        return {
            "add": lambda: a + b, "sub": lambda: a - b, "mul": lambda: a * b, "udiv": lambda: z3.UDiv(a, b),
            "urem": lambda: z3.URem(a, b), "sdiv": lambda: a / b, "srem": lambda: z3.SRem(a, b), "and": lambda: a & b,
            "or": lambda: a | b, "xor": lambda: a ^ b, "shl": lambda: a << b, "ashr": lambda: a >> b,
            "lshr": lambda: z3.LShR(a, b), "rol": lambda: z3.RotateLeft(a, b), "ror": lambda: z3.RotateRight(a, b),
        }[o]()
    if o == "extract":
        return z3.Extract(d[1], d[2], kids[2])
    if o == "concat":
        return z3.Concat(*kids)
    if o == "zext":
        return z3.ZeroExt(d[1], kids[1])
    if o == "sext":
        return z3.SignExt(d[1], kids[1])
    if o == "neg":
        return -kids[0]
    if o == "inv":
        return ~kids[0]
    if o == "band":
        return z3.And(*kids)
    if o == "bor":
        return z3.Or(*kids)
    if o == "bnot":
        return z3.Not(kids[0])
    if o == "beq":
        return kids[0] == kids[1]
    if o == "bne":
        return kids[0] != kids[1]
    raise ValueError(o)


def unspecified_guard(d):
    """Z3 Bool term: True when every SMT-LIB-unspecified sub-result in d is avoided
    (fpToIEEEBV of NaN; fpToSBV/UBV of NaN, inf or out-of-range)."""
    c = z3ref.ctx()
    conds = []

    def walk(x):
        if not isinstance(x, list):
            return
        o = base(x[0])
        if o == "fp2ieee":
            conds.append(z3.Not(z3.fpIsNaN(term(x[1]), ctx=c)))
        elif o in ("fp2sbv", "fp2ubv"):
            a = term(x[2])
            n = x[3]
            r = z3.fpToReal(z3.fpRoundToIntegral(zrm(x[1]), a, ctx=c), ctx=c)
            if o == "fp2sbv":
                lo, hi = -(1 << (n - 1)), (1 << (n - 1)) - 1
            else:
                lo, hi = 0, (1 << n) - 1
            conds.append(z3.And(z3.Not(z3.fpIsNaN(a, ctx=c)), z3.Not(z3.fpIsInf(a, ctx=c)), r >= z3.RealVal(lo, c), r <= z3.RealVal(hi, c)))
        for y in x[1:]:
            walk(y)

    walk(d)
    if not conds:
        return z3.BoolVal(True, ctx=c)
    return z3.And(*conds) if len(conds) > 1 else conds[0]


def has_vars(d):
    if not isinstance(d, list):
        return False
    if base(d[0]) in ("fps", "bvs", "bools"):
        return True
    return any(has_vars(a) for a in d[1:])


def same_value(a, b):
    """SMT-LIB '=' on two *concrete* Z3 terms of the same sort (FP: NaN = NaN, +0 != -0).
    -> True | False | None (could not decide by simplification)"""
    r = z3.simplify(a == b)
    if z3.is_true(r):
        return True
    if z3.is_false(r):
        return False
    return None
