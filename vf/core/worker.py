"""Child process: run one shard of one property and dump its Result as JSON."""
from __future__ import annotations

import faulthandler
import importlib
import json
import logging
import os
import resource
import sys
import traceback

from . import known as knownmod
from .result import Result


def run(pid, spec, out):
    mod = importlib.import_module("vf.props." + pid.lower())
    res = Result(pid, classifier=knownmod.make_classifier(pid, mod))
    if spec.get("rlimit_as"):
        resource.setrlimit(resource.RLIMIT_AS, (int(spec["rlimit_as"]), int(spec["rlimit_as"])))
    try:
        import claripy  # noqa: F401

        repo = os.environ.get("VERIF_REPO", "/repo")
        assert os.path.realpath(claripy.__file__).startswith(os.path.realpath(repo) + os.sep), (
            f"claripy imported from {claripy.__file__}, expected under {repo}"
        )
        logging.getLogger("claripy").setLevel(logging.CRITICAL)
        if spec.get("kind") == "replay":
            from .result import big_restore

            mod.replay(big_restore(spec["witness"]), res)
        else:
            mod.run_shard(spec, res)
    except MemoryError:
        res.violation({"kind": "harness-memoryerror", "spec": spec, "tb": traceback.format_exc()[-1500:]})
    except BaseException as e:  # noqa: BLE001
        # an exception that escaped the per-case handlers: report with the shard spec so it is
        # never silently folded into "held"
        res.violation({"kind": "shard-exception", "what": repr(e), "spec": spec, "tb": traceback.format_exc()[-3000:]})
    with open(out, "w") as f:
        json.dump(res.to_json(), f, default=repr)


if __name__ == "__main__":
    faulthandler.enable()
    sys.setrecursionlimit(10000)
    cov = None
    if os.environ.get("VF_COV_DIR"):
        # development aid (never set by a registered command): line coverage of the repository under this shard, used
        # to find code the workloads never drive
        import coverage

        os.environ.setdefault("COVERAGE_CORE", "sysmon")
        cov = coverage.Coverage(data_file=os.path.join(os.environ["VF_COV_DIR"], f".coverage.{sys.argv[1]}"), data_suffix=True, source=[os.path.join(os.environ.get("VERIF_REPO", "/repo"), "claripy")])
        cov.start()
    try:
        run(sys.argv[1], json.loads(sys.argv[2]), sys.argv[3])
    finally:
        if cov is not None:
            cov.stop()
            cov.save()
