"""Known findings: genuine defects of the pinned tree that are recorded, not repaired.

KNOWN_FINDINGS.json is committed and never written at run time.  Each entry of kind
"finding" names a *classifier*: a pure predicate `K_<id with - replaced by _>` defined in
the property module, which recomputes what the recorded defect mechanism would produce and
requires the observed witness to match it.  Only entries listed in the file are consulted;
an oracle failure that no listed classifier claims is a VIOLATION.
Entries of kind "fixed" suppress nothing.
"""
from __future__ import annotations

import json
import os

ROOT = os.path.dirname(os.path.dirname(os.path.dirname(os.path.abspath(__file__))))
_PATH = os.path.join(ROOT, "KNOWN_FINDINGS.json")
_cache = None


def load():
    global _cache
    if _cache is None:
        try:
            with open(_PATH) as f:
                _cache = json.load(f)
        except FileNotFoundError:
            _cache = {"entries": []}
    return _cache


def findings_for(pid):
    return [e for e in load()["entries"] if e.get("property") == pid and e.get("kind") == "finding"]


def describe(pid, fid):
    for e in load()["entries"]:
        if e.get("property") == pid and e.get("id") == fid:
            return e.get("what", "")
    return ""


def make_classifier(pid, mod):
    entries = findings_for(pid)
    preds = []
    for e in entries:
        fn = getattr(mod, "K_" + e["id"].replace("-", "_"), None)
        if fn is not None:
            preds.append((e["id"], fn))
    if not preds:
        return None

    def classify(w):
        hits = [fid for fid, fn in preds if fn(w)]
        return hits[0] if len(hits) >= 1 else None

    return classify
