"""Delta-debug a history witness:  python -m vf.core.shrink <replay.json>
Re-runs the history through M-api on the real solver class named in the witness' config and
greedily removes steps while a violation is still reported."""
from __future__ import annotations

import json
import logging
import sys

CREATORS = ("branch", "combine", "merge", "pickle")


def vars_of(steps):
    from vf.ref import bvsem

    vs = {}

    def collect(x):
        if isinstance(x, list):
            if x and isinstance(x[0], str):
                try:
                    vs.update(bvsem.variables(x))
                except Exception:  # noqa: BLE001
                    pass
            for y in x:
                collect(y)
        elif isinstance(x, dict):
            for y in x.values():
                collect(y)

    collect(steps)
    return {k: v for k, v in vs.items() if not k.startswith("fresh") and not k.startswith("guard")}


def remove(steps, i):
    st = steps[i]
    out = steps[:i] + steps[i + 1 :]
    if st["op"] not in CREATORS:
        return out
    # index of the solver this step created
    k = 1 + sum(1 for x in steps[:i] if x["op"] in CREATORS)
    res = []
    for x in out[:i]:
        res.append(x)
    for x in out[i:]:
        refs = [x["s"], *x.get("others", []), *([x["anc"]] if x.get("anc") is not None else [])]
        if k in refs:
            if x["op"] in CREATORS:
                return None  # would cascade; keep it simple
            continue
        y = dict(x)
        y["s"] = x["s"] - (x["s"] > k)
        if "others" in x:
            y["others"] = [j - (j > k) for j in x["others"]]
        if x.get("anc") is not None:
            y["anc"] = x["anc"] - (x["anc"] > k)
        res.append(y)
    return res


def make_factory(cfg):
    import claripy

    claripy.backends.z3.reuse_z3_solver = bool(cfg.get("reuse"))
    if not hasattr(claripy, cfg.get("cls", "Solver")):
        # C13 configuration names
        from vf.props import c13

        return lambda: c13.make_solver(cfg["cls"])
    cls = getattr(claripy, cfg.get("cls", "Solver"))
    kw = dict(cfg.get("kwargs") or {})
    if cfg.get("track"):
        kw["track"] = True
    return lambda: cls(**kw)


def fails(steps, cfg, mode):
    from vf.core.result import Result
    from vf.mon import api

    res = Result("shrink")
    run = api.Run(res, vars_of(steps), make_factory(cfg), "shrink", mode=mode, cfg=cfg, keep=[])
    try:
        for st in steps:
            if st["s"] >= len(run.live):
                continue
            run.step(st)
            if run.failed:
                break
    except Exception:  # noqa: BLE001
        return None
    return res.violations[0] if res.nviol else None


def main():
    logging.getLogger("claripy").setLevel(logging.CRITICAL)
    w = json.load(open(sys.argv[1]))
    cfg = w.get("config") or {}
    mode = "approx" if cfg.get("approx") or cfg.get("cls") in ("hybrid-false", "vsa", "replacement-vsa") else "exact"
    steps = [e[2] for e in w["history"]]
    v = fails(steps, cfg, mode)
    if v is None:
        print("does not reproduce (history in the witness may be truncated)")
        return 1
    changed = True
    while changed:
        changed = False
        for i in range(len(steps) - 1, -1, -1):
            cand = remove(steps, i)
            if cand is None:
                continue
            r = fails(cand, cfg, mode)
            if r is not None:
                steps, v, changed = cand, r, True
                break
    print("config:", json.dumps(cfg))
    for st in steps:
        print(json.dumps(st))
    print("->", v.get("what"), {k: v.get(k) for k in ("observed", "expected", "infeasible", "expected_count") if k in v})
    return 0


if __name__ == "__main__":
    sys.exit(main())
