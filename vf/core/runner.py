"""Master process: plan shards, run each in its own subprocess, merge, write evidence."""
from __future__ import annotations

import argparse
import importlib
import json
import os
import subprocess
import sys
import time
from concurrent.futures import ThreadPoolExecutor

from . import known as knownmod
from .result import Result, h64

ROOT = os.path.dirname(os.path.dirname(os.path.dirname(os.path.abspath(__file__))))
REPO = os.environ.get("VERIF_REPO", "/repo")
PY = os.environ.get("VERIF_PY", "/venv/bin/python")
NPROC = int(os.environ.get("VERIF_JOBS", str(os.cpu_count() or 4)))
# where evidence/, replays/ and .work/ go; only the self-test on seeded mutations redirects it (so that a run against a
# deliberately broken scratch tree never overwrites the evidence of the real tree)
OUT = os.environ.get("VERIF_OUT", ROOT)


def child_env(extra=None):
    env = dict(os.environ)
    env["PYTHONPATH"] = REPO + os.pathsep + ROOT
    env["PYTHONDONTWRITEBYTECODE"] = "1"
    env.setdefault("PYTHONHASHSEED", "0")
    env["CLARIPY_VERIF"] = "1"
    env["VERIF_REPO"] = REPO
    if extra:
        env.update({k: str(v) for k, v in extra.items()})
    return env


def load_prop(pid):
    return importlib.import_module("vf.props." + pid.lower())


def run_one_shard(pid, idx, spec, workdir, timeout):
    out = os.path.join(workdir, f"shard{idx}.json")
    if os.path.exists(out):
        os.unlink(out)
    cmd = [PY, "-X", "faulthandler", "-m", "vf.core.worker", pid, json.dumps(spec), out]
    t0 = time.time()
    try:
        p = subprocess.run(
            cmd, cwd=ROOT, env=child_env(spec.get("env")), capture_output=True, text=True, timeout=timeout
        )
        rc, err = p.returncode, (p.stderr or "")[-4000:]
    except subprocess.TimeoutExpired as e:
        rc, err = "timeout", (e.stderr.decode() if isinstance(e.stderr, bytes) else (e.stderr or ""))[-2000:]
    j = None
    if os.path.exists(out):
        try:
            with open(out) as f:
                j = json.load(f)
        except Exception:
            j = None
    return idx, spec, rc, err, j, time.time() - t0


def main(argv=None):
    ap = argparse.ArgumentParser()
    ap.add_argument("pid")
    ap.add_argument("--tier", default=os.environ.get("VERIF_TIER", "quick"), choices=["quick", "thorough"])
    ap.add_argument("--replay", default=None)
    ap.add_argument("--only", default=None, help="run only shards whose kind contains this")
    ap.add_argument("--serial", action="store_true", help="run shards in-process (debugging)")
    a = ap.parse_args(argv)
    pid = a.pid.upper()
    seed = int(os.environ.get("VERIF_SEED", "0"))
    mod = load_prop(pid)
    t0 = time.time()
    workdir = os.path.join(OUT, ".work", pid)
    os.makedirs(workdir, exist_ok=True)
    os.makedirs(os.path.join(OUT, "evidence"), exist_ok=True)
    os.makedirs(os.path.join(OUT, "replays"), exist_ok=True)

    if a.replay:
        with open(a.replay) as f:
            w = json.load(f)
        specs = [{"kind": "replay", "witness": w}]
    else:
        specs = mod.plan(a.tier, seed)
        if a.only:
            specs = [s for s in specs if a.only in s.get("kind", "")]
    for s in specs:
        s.setdefault("tier", a.tier)
        s.setdefault("seed", seed)
    default_to = 1500 if a.tier == "quick" else 7200
    total = Result(pid)
    crashes = []
    timeouts = 0

    def job(i_s):
        i, s = i_s
        return run_one_shard(pid, i, s, workdir, s.get("timeout", default_to))

    if a.serial:
        from . import worker

        results = []
        for i, s in enumerate(specs):
            out = os.path.join(workdir, f"shard{i}.json")
            worker.run(pid, s, out)
            with open(out) as f:
                results.append((i, s, 0, "", json.load(f), 0.0))
    else:
        with ThreadPoolExecutor(max_workers=NPROC) as ex:
            results = list(ex.map(job, list(enumerate(specs))))

    # A worker killed by a signal of its own (a crash inside native code): run that shard once more.  A death that does
    # not repeat is recorded and makes the run inconclusive for that shard's share only if the second run fails too; a
    # property module for which a crash is itself the observation (C04, C19, C20) sets STRICT_WORKER_DEATH.
    died_once = []
    if not getattr(mod, "STRICT_WORKER_DEATH", False):
        retried = []
        for idx, spec, rc, err, j, dt in results:
            if isinstance(rc, int) and rc < 0 and rc not in (-15, -9):
                died_once.append({"shard": idx, "kind": spec.get("kind"), "rc": rc, "stderr_tail": err[-600:]})
                retried.append(run_one_shard(pid, idx, spec, workdir, spec.get("timeout", default_to)))
            else:
                retried.append((idx, spec, rc, err, j, dt))
        results = retried

    shard_times = {}
    for idx, spec, rc, err, j, dt in results:
        shard_times[f"{idx}:{spec.get('kind')}"] = round(dt, 1)
        if j is not None:
            total.merge_json(j)
        if rc == "timeout":
            timeouts += 1
            total.inconc(f"shard {idx} ({spec.get('kind')}) hit the wall-clock watchdog")
        elif rc in (-15, -9):
            # SIGTERM / SIGKILL come from outside (operator, OOM killer, harness): no verdict from this shard
            total.inconc(f"shard {idx} ({spec.get('kind')}) was killed by signal {-rc} from outside")
        elif rc != 0:
            # the worker died (signal, MemoryError outside a case, interpreter abort): that is an
            # observation about the code under test, not a held verdict
            crashes.append({"shard": idx, "kind": spec.get("kind"), "rc": rc, "stderr_tail": err[-1500:], "spec": spec})

    for c in crashes:
        total.nviol += 1
        total.violations.append({"kind": "worker-died", **c})

    # floors: monitors that were never reached make the run inconclusive
    floors = getattr(mod, "floors", lambda tier: {})(a.tier) if not a.replay and not a.only else {}
    for k, v in floors.items():
        if total.counters.get(k, 0) < v:
            total.inconc(f"monitor floor not reached: {k}={total.counters.get(k, 0)} < {v}")

    extra = {}
    if hasattr(mod, "finalize"):
        try:
            extra = mod.finalize(total, a.tier) or {}
        except Exception as e:  # noqa: BLE001
            total.inconc(f"finalize failed: {e!r}")

    if died_once:
        extra["worker_died_once_and_was_rerun"] = died_once
        print(f"NOTE property={pid} {len(died_once)} shard(s) died by a signal and were run again: " + ", ".join(f"{d['kind']}(rc={d['rc']})" for d in died_once))

    wall = time.time() - t0
    # ---- verdict lines
    rc = 0
    for fid, k in sorted(total.known.items()):
        what = knownmod.describe(pid, fid)
        print(f"KNOWN-FINDING: property={pid} {fid} {what} (seen {k['count']}x this run)")
    seen_paths = set()
    for w in total.violations:
        name = f"{pid}-{h64(w)}.json"
        path = os.path.join(OUT, "replays", name)
        if path not in seen_paths:
            seen_paths.add(path)
            with open(path, "w") as f:
                json.dump({"property": pid, "seed": seed, "tier": a.tier, **w}, f, indent=1, default=repr)
            print(f"VIOLATION property={pid} replay={path}")
            brief = {k: v for k, v in w.items() if k in ("kind", "what", "mon", "case", "observed", "expected")}
            print("  " + json.dumps(brief, default=repr)[:600])
        rc = 1
    if total.nviol > len(total.violations):
        print(f"  (+{total.nviol - len(total.violations)} further violations not written)")
    for r in total.inconclusive:
        print(f"INCONCLUSIVE property={pid} reason={r}")

    if not a.replay:
        write_evidence(mod, pid, a.tier, seed, total, extra, wall, shard_times, timeouts)
    verdict = "VIOLATED" if rc else ("INCONCLUSIVE" if total.inconclusive else "HELD")
    print(
        f"{pid} {a.tier} seed={seed}: {verdict} evaluations={total.evaluations} "
        f"distinct_nontrivial={len(total.distinct)} known_findings={len(total.known)} wall={wall:.1f}s"
    )
    return rc


def write_evidence(mod, pid, tier, seed, total: Result, extra, wall, shard_times, timeouts):
    cov = {
        "evaluations": int(total.evaluations),
        "distinct_nontrivial": int(len(total.distinct)),
        "rule": getattr(mod, "RULE", ""),
        "samples": total.samples[:12] or ["<no case was generated>"],
        "counters": dict(sorted(total.counters.items())),
        "observed_sets": {k: sorted(v, key=repr)[:60] for k, v in sorted(total.sets.items())},
        "observed_set_sizes": {k: len(v) for k, v in sorted(total.sets.items())},
        "known_findings_hit": {k: v["count"] for k, v in sorted(total.known.items())},
        "inconclusive": list(total.inconclusive),
        "verdict": "violated" if total.nviol else ("inconclusive" if total.inconclusive else "held"),
        "shard_wall_s": shard_times,
        "watchdog_expiries": timeouts,
    }
    cov.update(extra)
    ev = {
        "property_id": pid,
        "tier": tier,
        "seed": seed,
        "level": getattr(mod, "LEVEL", "exploration"),
        "coverage": cov,
        "assumptions": list(getattr(mod, "ASSUMPTIONS", [])),
        "wall_s": round(wall, 2),
        "violations": int(total.nviol),
    }
    path = os.path.join(OUT, "evidence", f"{pid}.json")
    tmp = path + ".tmp"
    with open(tmp, "w") as f:
        json.dump(ev, f, indent=1, default=repr)
    os.replace(tmp, path)


if __name__ == "__main__":
    sys.exit(main())
