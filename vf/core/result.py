"""Per-shard result accumulator, mergeable across shards (plain JSON)."""
from __future__ import annotations

import hashlib
import json


_BIG = 14000  # bits: beyond this the interpreter refuses int <-> decimal string conversion (4300 digits)


def big_safe(obj):
    """integers too long for the interpreter's decimal conversion limit become {"hexint": "0x..."} (the limit stays in
    force in the harness processes, because it is part of the environment claripy is judged in)"""
    if isinstance(obj, bool):
        return obj
    if isinstance(obj, int):
        return {"hexint": hex(obj)} if obj.bit_length() > _BIG else obj
    if isinstance(obj, (list, tuple)):
        return [big_safe(x) for x in obj]
    if isinstance(obj, dict):
        return {k: big_safe(v) for k, v in obj.items()}
    return obj


def big_restore(obj):
    if isinstance(obj, list):
        return [big_restore(x) for x in obj]
    if isinstance(obj, dict):
        if set(obj) == {"hexint"}:
            return int(obj["hexint"], 16)
        return {k: big_restore(v) for k, v in obj.items()}
    return obj


def canon(obj) -> str:
    try:
        return json.dumps(obj, sort_keys=True, default=repr, separators=(",", ":"))
    except ValueError:
        return json.dumps(big_safe(obj), sort_keys=True, default=repr, separators=(",", ":"))


def h64(obj) -> str:
    return hashlib.blake2b(canon(obj).encode(), digest_size=8).hexdigest()


class Result:
    """What one shard observed.

    evaluations       cases judged by an oracle
    distinct          set of hashes of non-trivial case descriptors
    counters          name -> int (summed over shards)
    sets              name -> set of small strings (unioned over shards)
    violations        list of witnesses (dict) that no known-finding classifier claimed
    known             finding-id -> {"count": n, "example": witness}
    inconclusive      list of reasons
    """

    MAX_VIOL = 25
    MAX_SAMPLES = 8

    def __init__(self, pid: str, classifier=None):
        self.pid = pid
        self.evaluations = 0
        self.distinct: set[str] = set()
        self.counters: dict[str, int] = {}
        self.sets: dict[str, set] = {}
        self.samples: list = []
        self.violations: list[dict] = []
        self.nviol = 0
        self.known: dict[str, dict] = {}
        self.inconclusive: list[str] = []
        self._classifier = classifier
        self._sample_stride = 1

    # -- cases --------------------------------------------------------
    def case(self, desc, nontrivial=True, sample=None):
        self.evaluations += 1
        if nontrivial:
            self.distinct.add(h64(desc))
        if len(self.samples) < self.MAX_SAMPLES and self.evaluations % self._sample_stride == 0:
            self.samples.append(sample if sample is not None else desc)
            self._sample_stride = self._sample_stride * 3 + 1

    def count(self, key, n=1):
        self.counters[key] = self.counters.get(key, 0) + n

    def setadd(self, key, val, cap=400):
        s = self.sets.setdefault(key, set())
        if len(s) < cap:
            s.add(val)

    def inconc(self, reason):
        if reason not in self.inconclusive:
            self.inconclusive.append(reason)

    # -- violations ---------------------------------------------------
    def violation(self, witness: dict):
        """Report an oracle failure.  The known-finding classifier decides whether it is a
        recorded genuine defect (mechanism matched exactly) or a VIOLATION."""
        fid = None
        if self._classifier is not None:
            try:
                fid = self._classifier(witness)
            except Exception as e:  # a broken classifier must never hide a violation
                witness = dict(witness, classifier_error=repr(e))
                fid = None
        if fid is not None:
            k = self.known.setdefault(fid, {"count": 0, "example": witness})
            k["count"] += 1
            return fid
        self.nviol += 1
        if len(self.violations) < self.MAX_VIOL:
            self.violations.append(witness)
        return None

    # -- (de)serialisation ---------------------------------------------
    def to_json(self):
        return {
            "pid": self.pid,
            "evaluations": self.evaluations,
            "distinct": sorted(self.distinct),
            "counters": self.counters,
            "sets": {k: sorted(v, key=repr) for k, v in self.sets.items()},
            "samples": big_safe(self.samples),
            "violations": big_safe(self.violations),
            "nviol": self.nviol,
            "known": big_safe(self.known),
            "inconclusive": self.inconclusive,
        }

    def merge_json(self, j):
        self.evaluations += j["evaluations"]
        self.distinct.update(j["distinct"])
        for k, v in j["counters"].items():
            self.counters[k] = self.counters.get(k, 0) + v
        for k, v in j["sets"].items():
            self.sets.setdefault(k, set()).update(v if not v or not isinstance(v[0], list) else map(tuple, v))
        for s in j["samples"]:
            if len(self.samples) < 3 * self.MAX_SAMPLES:
                self.samples.append(s)
        for w in j["violations"]:
            if len(self.violations) < self.MAX_VIOL:
                self.violations.append(w)
        self.nviol += j["nviol"]
        for fid, k in j["known"].items():
            mine = self.known.setdefault(fid, {"count": 0, "example": k["example"]})
            mine["count"] += k["count"]
        for r in j["inconclusive"]:
            self.inconc(r)
