"""setup_cmd: verify (offline) that everything the checks need is importable; nothing is installed."""
from __future__ import annotations

import json
import os
import subprocess
import sys

ROOT = os.path.dirname(os.path.dirname(os.path.dirname(os.path.abspath(__file__))))


def main():
    env = dict(os.environ, PYTHONPATH="/repo" + os.pathsep + ROOT, PYTHONDONTWRITEBYTECODE="1")
    code = (
        "import claripy, z3, os, sys;"
        "assert os.path.realpath(claripy.__file__).startswith('/repo/'), claripy.__file__;"
        "import vf.ref.bvsem, vf.ref.z3ref, vf.gen.build, vf.mon.sem;"
        "print('claripy', claripy.__version__, 'z3', z3.get_version_string(), 'python', sys.version.split()[0])"
    )
    p = subprocess.run([sys.executable, "-c", code], env=env, cwd=ROOT, capture_output=True, text=True)
    sys.stdout.write(p.stdout)
    sys.stderr.write(p.stderr)
    if p.returncode:
        return p.returncode
    for d in ("evidence", "replays", ".work"):
        os.makedirs(os.path.join(ROOT, d), exist_ok=True)
    with open(os.path.join(ROOT, "MANIFEST.json")) as f:
        man = json.load(f)
    with open(os.path.join(ROOT, "KNOWN_FINDINGS.json")) as f:
        json.load(f)
    print("setup ok:", len(man["checks"]), "checks registered")
    return 0


if __name__ == "__main__":
    sys.exit(main())
