"""Regenerate MANIFEST.json from the property modules (keeps it valid at all times)."""
from __future__ import annotations

import importlib
import json
import os

ROOT = os.path.dirname(os.path.dirname(os.path.dirname(os.path.abspath(__file__))))

ALL = [f"C{i:02d}" for i in range(1, 27)]
BASELINE_OFF = (
    "cd /repo && env -u CLARIPY_VERIF /venv/bin/python -m pytest -ra -q -p no:cacheprovider --timeout=900 "
    "--continue-on-collection-errors --junitxml=/tmp/claripy-baseline-off.junit.xml"
)


def main():
    checks = []
    na = []
    for pid in ALL:
        path = os.path.join(ROOT, "vf", "props", pid.lower() + ".py")
        if not os.path.exists(path):
            na.append({"property_id": pid, "reason": "check not built yet in this round (planned: see DESIGN.md section 6)"})
            continue
        m = importlib.import_module("vf.props." + pid.lower())
        if getattr(m, "REGISTERED", True) is False:
            # module exists but is not finished (see its REGISTERED comment): not claimed
            na.append({"property_id": pid, "reason": "check not built yet in this round (planned: see DESIGN.md section 6)"})
            continue
        if getattr(m, "NOT_APPLICABLE", None):
            na.append({"property_id": pid, "reason": m.NOT_APPLICABLE})
            continue
        c = {
            "property_id": pid,
            "quick_cmd": f"./check {pid} --tier quick",
            "thorough_cmd": f"./check {pid} --tier thorough",
            "evidence_file": f"evidence/{pid}.json",
            "replay_cmd_template": f"./check {pid} --replay {{path}}",
            "engine": "vf",
            "level_claimed": {
                "category": getattr(m, "LEVEL", "exploration"),
                "text": getattr(m, "LEVEL_TEXT", m.RULE)[:1500],
                "design_ref": f"DESIGN.md section 6 ({pid})",
            },
            "level_note": "; ".join(getattr(m, "ASSUMPTIONS", [])) or "trusted base: z3-solver 4.13, CPython, vf/ref models",
            "technique": getattr(m, "TECHNIQUE", "runtime monitoring: generated workloads on the real code, oracle over observed results"),
        }
        checks.append(c)
    man = {
        "version": 1,
        "setup_cmd": "/venv/bin/python -m vf.core.setup",
        "hooks": {
            "guard": "CLARIPY_VERIF",
            "enable": "no source hooks: monitors are installed at run time by the harness (attribute replacement, sys.monitoring); checks run /venv/bin/python with PYTHONPATH=/repo so the current working tree is executed",
            "baseline_off_cmd": BASELINE_OFF,
            "source_commits": [],
            "add_only": True,
        },
        "engines": [
            {
                "name": "vf",
                "path": "vf/",
                "serves_properties": [c["property_id"] for c in checks],
                "kind_free_text": "runtime monitors + generated workloads + reference oracles (pure Python / z3py), sharded over subprocesses",
            }
        ],
        "checks": checks,
        "not_applicable": na,
        "notes": "All checks are runtime monitoring of the real claripy code from /repo's working tree. KNOWN_FINDINGS.json lists recorded genuine defects (mechanism-keyed) and fixed ones.",
    }
    with open(os.path.join(ROOT, "MANIFEST.json"), "w") as f:
        json.dump(man, f, indent=1)
    print(f"MANIFEST.json: {len(checks)} checks, {len(na)} not_applicable")


if __name__ == "__main__":
    main()
