"""FP descriptor -> claripy AST through the public API; boundary pools and generators."""
from __future__ import annotations

import math
import struct

import claripy
from claripy.fp import RM

from vf.gen import build as bvbuild
from vf.ref import fpref
from vf.ref.bvsem import base

CRM = {
    "RNE": RM.RM_NearestTiesEven,
    "RNA": RM.RM_NearestTiesAwayFromZero,
    "RTZ": RM.RM_TowardsZero,
    "RTP": RM.RM_TowardsPositiveInf,
    "RTN": RM.RM_TowardsNegativeInf,
}


def csort(S):
    return claripy.FSORT_FLOAT if S == "F" else claripy.FSORT_DOUBLE


def build(d):
    o = base(d[0])
    v = bvbuild.variant(d[0])
    if o == "fpv":
        return claripy.FPV(fpref.bits_to_py(d[1], d[2]), csort(d[2]))
    if o == "fpv_py":
        if v == "raw":
            return float.fromhex(d[1])  # left to the operator to coerce
        return claripy.FPV(float.fromhex(d[1]), csort(d[2]))
    if o == "fpv_int":
        # a Python integer where a float is expected (FPV and the operators accept them)
        if v == "op":
            return claripy.FPS("xi" + d[2], csort(d[2]), explicit_name=True) + d[1]
        return claripy.FPV(d[1], csort(d[2]))
    if o == "fps":
        return claripy.FPS(d[1], csort(d[2]), explicit_name=True)
    if o in ("fpadd", "fpsub", "fpmul", "fpdiv"):
        a, b = build(d[2]), build(d[3])
        if v == "py" and d[1] == "RNE":
            import operator

            return {"fpadd": operator.add, "fpsub": operator.sub, "fpmul": operator.mul, "fpdiv": operator.truediv}[o](a, b)
        f = {"fpadd": claripy.fpAdd, "fpsub": claripy.fpSub, "fpmul": claripy.fpMul, "fpdiv": claripy.fpDiv}[o]
        if v == "norm" and d[1] == "RNE":
            return f(a, b)  # rounding mode omitted: the default is inserted
        return f(CRM[d[1]], a, b)
    if o == "fpsqrt":
        return claripy.fpSqrt(CRM[d[1]], build(d[2]))
    if o == "fpneg":
        a = build(d[1])
        return -a if v == "py" else claripy.fpNeg(a)
    if o == "fpabs":
        a = build(d[1])
        return abs(a) if v == "py" else claripy.fpAbs(a)
    if o in ("fpeq", "fpneq", "fplt", "fpleq", "fpgt", "fpgeq"):
        a, b = build(d[1]), build(d[2])
        if v == "py":
            import operator

            return {"fpeq": operator.eq, "fpneq": operator.ne, "fplt": operator.lt, "fpleq": operator.le, "fpgt": operator.gt, "fpgeq": operator.ge}[o](a, b)
        return {"fpeq": claripy.fpEQ, "fpneq": claripy.fpNEQ, "fplt": claripy.fpLT, "fpleq": claripy.fpLEQ, "fpgt": claripy.fpGT, "fpgeq": claripy.fpGEQ}[o](a, b)
    if o == "fpisnan":
        return claripy.fpIsNaN(build(d[1]))
    if o == "fpisinf":
        return claripy.fpIsInf(build(d[1]))
    if o == "fp2fp":
        a = build(d[2])
        if v == "meth":
            return a.to_fp(csort(d[3]), CRM[d[1]])
        return claripy.fpToFP(CRM[d[1]], a, csort(d[3]))
    if o == "sbv2fp":
        a = build(d[2])
        if v == "meth":
            return a.val_to_fp(csort(d[3]), signed=True, rm=CRM[d[1]])
        return claripy.fpToFP(CRM[d[1]], a, csort(d[3]))
    if o == "ubv2fp":
        a = build(d[2])
        if v == "meth":
            return a.val_to_fp(csort(d[3]), signed=False, rm=CRM[d[1]])
        return claripy.fpToFPUnsigned(CRM[d[1]], a, csort(d[3]))
    if o == "raw2fp":
        a = build(d[1])
        if v == "meth":
            return a.raw_to_fp()
        return claripy.fpToFP(a, csort(d[2]))
    if o == "fpfp":
        return claripy.fpFP(build(d[1]), build(d[2]), build(d[3]))
    if o == "fp2ieee":
        a = build(d[1])
        return a.raw_to_bv() if v == "meth" else claripy.fpToIEEEBV(a)
    if o == "fp2sbv":
        a = build(d[2])
        if v == "meth":
            return a.val_to_bv(d[3], signed=True, rm=CRM[d[1]])
        return claripy.fpToSBV(CRM[d[1]], a, d[3])
    if o == "fp2ubv":
        a = build(d[2])
        if v == "meth":
            return a.val_to_bv(d[3], signed=False, rm=CRM[d[1]])
        return claripy.fpToUBV(CRM[d[1]], a, d[3])
    if o == "ite":
        return claripy.If(build(d[1]), build(d[2]), build(d[3]))
    if o in ("bvs", "bvv", "bools", "boolv"):
        return bvbuild.build(d)
    # BV/Bool operator over children that may be FP-derived: reuse the BV builder's dispatch by
    # building children here first
    return _mixed(d)


def _mixed(d):
    import operator

    o = base(d[0])
    kids = [build(a) if isinstance(a, list) else a for a in d[1:]]
    from vf.ref import bvsem

    if o in bvsem.CMP:
        a, b = kids
        if o == "eq":
            return a == b
        if o == "ne":
            return a != b
        return getattr(claripy, bvbuild.CMPFUN[o])(a, b)
    if o in bvsem.BIN:
        a, b = kids
        if o in bvbuild.PYOPS:
            return bvbuild.PYOPS[o](a, b)
        return getattr(claripy, bvbuild.FUNOPS[o])(a, b)
    if o == "extract":
        return claripy.Extract(d[1], d[2], kids[2])
    if o == "concat":
        return claripy.Concat(*kids)
    if o == "zext":
        return claripy.ZeroExt(d[1], kids[1])
    if o == "sext":
        return claripy.SignExt(d[1], kids[1])
    if o == "neg":
        return -kids[0]
    if o == "inv":
        return ~kids[0]
    if o == "band":
        return claripy.And(*kids)
    if o == "bor":
        return claripy.Or(*kids)
    if o == "bnot":
        return claripy.Not(kids[0])
    if o == "beq":
        return kids[0] == kids[1]
    if o == "bne":
        return kids[0] != kids[1]
    raise ValueError(o)


# ---------------------------------------------------------------------------------------------
# pools


def _f(x):
    return struct.unpack("<I", struct.pack("<f", x))[0]


def _d(x):
    return struct.unpack("<Q", struct.pack("<d", x))[0]


def pool_bits(S):
    """Hostile constants as IEEE bit patterns."""
    if S == "F":
        E, M, conv = 8, 23, _f
    else:
        E, M, conv = 11, 52, _d
    n = 1 + E + M
    sign = 1 << (n - 1)
    emax = ((1 << E) - 1) << M
    pats = [
        0, sign,  # +-0
        1, sign | 1,  # +-min subnormal
        (1 << M) - 1, sign | ((1 << M) - 1),  # +-max subnormal
        1 << M, sign | (1 << M),  # +-min normal
        emax - 1, sign | (emax - 1),  # +-max finite
        emax, sign | emax,  # +-inf
        emax | (1 << (M - 1)),  # NaN
    ]
    vals = [0.5, 1.0, 1.5, 2.0, 2.5, 3.0, -0.5, -1.5, -2.5, 1.2, -1.2, -0.3, 0.1, 1e10, 3.5, -3.5, 255.5, 256.0, 127.5, 128.0, -128.5, 2.0**24, 2.0**24 + 1, 2.0**24 - 1, 2.0**31, 2.0**31 - 1, -(2.0**31), 2.0**32, 2.0**53, 2.0**53 + 2, 2.0**63, -(2.0**63), 2.0**64, 1e38, 1e39 if S == "D" else 3e38, 4.0, 9.0, 2.0**-1, 7.0]
    if S == "D":
        vals += [2.0**53 - 1, 2.0**53 + 1, 1e308, 1e-308, 1e300, 2.0**62 + 2.0**10]
    for x in vals:
        try:
            pats.append(conv(x))
        except OverflowError:
            pass
    # halfway cases for the rounding modes: 1 + ulp/2 patterns are produced by operations, here add near-ties
    pats += [conv(1.0) + 1, conv(1.0) - 1, conv(2.0) + 1, conv(0.1) + 1]
    return sorted(set(pats))


def small_pool_bits(S):
    p = pool_bits(S)
    conv = _f if S == "F" else _d
    keep = {0, p[0]}
    n = nbits = 32 if S == "F" else 64
    sign = 1 << (n - 1)
    keep |= {0, sign, 1, sign | 1}
    keep |= {conv(x) for x in (1.0, 1.5, 2.5, -1.2, 0.1, 3.0, 2.0**24 + 1 if S == "D" else 2.0**24, 1e38, -0.5, 7.0)}
    E, M = (8, 23) if S == "F" else (11, 52)
    emax = ((1 << E) - 1) << M
    keep |= {emax, sign | emax, emax | (1 << (M - 1)), emax - 1, 1 << M, (1 << M) - 1}
    return sorted(keep)


def hostile_pyfloats():
    return [0.0, -0.0, float("inf"), float("-inf"), float("nan"), 1e39, -1e39, 3.4028235677973366e38, 3.4028234663852886e38, 1.0000000596046448, 1.00000005960464477539, 16777217.0, 0.1, 5e-324, 1.401298464324817e-45, 7.006492321624085e-46, 1.1754943508222875e-38, 2.2250738585072014e-308, 1.7976931348623157e308, 1.5, 2.5, -2.5]
