"""String descriptor -> claripy AST through the public API; hostile pools."""
from __future__ import annotations

import claripy

from vf.gen import build as bvbuild
from vf.ref.bvsem import base


class _Tag(claripy.Annotation):
    """a user's marker on a constant: says nothing about its value"""

    @property
    def eliminatable(self):
        return False

    @property
    def relocatable(self):
        return True

    # every instance is the same marker (an unpickled copy included)
    def __eq__(self, other):
        return isinstance(other, _Tag)

    def __hash__(self):
        return hash("vf.gen.strbuild._Tag")

    def __repr__(self):
        return "<_Tag>"


def build(d):
    o = base(d[0])
    v = bvbuild.variant(d[0])
    if o == "strv":
        lit = claripy.StringV("".join(map(chr, d[1])))
        return lit.annotate(_Tag()) if v == "ann" else lit
    if o == "strs":
        return claripy.StringS(d[1], explicit_name=True)
    if o == "sconcat":
        parts = [build(a) for a in d[1:]]
        if v == "py" and len(parts) == 2:
            return parts[0] + parts[1]
        return claripy.StrConcat(*parts)
    if o == "ssubstr":
        return claripy.StrSubstr(build(d[1]), build(d[2]), build(d[3]))
    if o == "sreplace":
        s, t, r = build(d[1]), build(d[2]), build(d[3])
        return s.strReplace(t, r) if v == "meth" else claripy.StrReplace(s, t, r)
    if o == "inttostr":
        return claripy.IntToStr(build(d[1]))
    if o == "slen":
        return claripy.StrLen(build(d[1]))
    if o == "sindexof":
        s, t, i = build(d[1]), build(d[2]), build(d[3])
        return s.indexOf(t, i) if v == "meth" else claripy.StrIndexOf(s, t, i)
    if o == "stoint":
        s = build(d[1])
        return s.toInt() if v == "meth" else claripy.StrToInt(s)
    if o == "scontains":
        return claripy.StrContains(build(d[1]), build(d[2]))
    if o == "sprefix":
        return claripy.StrPrefixOf(build(d[1]), build(d[2]))
    if o == "ssuffix":
        return claripy.StrSuffixOf(build(d[1]), build(d[2]))
    if o == "seq":
        return build(d[1]) == build(d[2])
    if o == "sne":
        return build(d[1]) != build(d[2])
    if o == "ite":
        return claripy.If(build(d[1]), build(d[2]), build(d[3]))
    if o in ("bvs", "bvv", "bools", "boolv"):
        return bvbuild.build(d)
    from vf.ref import bvsem

    if o in bvsem.CMP:
        a, b = build(d[1]), build(d[2])
        if o == "eq":
            return a == b
        if o == "ne":
            return a != b
        return getattr(claripy, bvbuild.CMPFUN[o])(a, b)
    if o in ("add", "sub"):
        a, b = build(d[1]), build(d[2])
        return a + b if o == "add" else a - b
    raise ValueError(o)


def S(text):
    return ["strv", [ord(ch) for ch in text]]


def pool():
    texts = [
        "", "a", "ab", "abc", "abcabc", "a.", "(", ")", "[", "a[b", ".*", "a+", "?", "^a", "a$", "$", "|", "a|b", "\\", "\\d", "\\u{48}", "\\x41",
        "\x00", "\x00z", "a\x00b", "\n", "a\nb", "\t", " ", " 5", "5 ", "-5", "+5", "5", "05", "007", "1_0", "12345678901234567890", "18446744073709551615", "18446744073709551616",
        "٣", "é", "ÿ", "Ā", "€", "\U0001F600", "\U0002FFFF", "a\U0001F600b", "\x7f", "\x80", "{", "}", "u{41}", "\\\\", "'", '"',
        # every spelling SMT-LIB / z3 may read as an escape, as literal characters
        "\\u0041", "a\\u00e9b", "\\u{1F600}", "\\u{41", "\\u41", "\\U0041", "\\x{41}", "\\n", "\\u{0}", "\\ud83d\\ude00", "\\\\u0041",
    ]
    # digits with a line end, carriage return or blank before or after them (none of these is a numeral)
    texts += ["12\n", "0\n", "12\n\n", "\n12", "12\r", "12\r\n", "1\n2", "12\x0b", "12\x0c", "\t12", "12\x1c", "12\x85", "12\u2028", "１２", "1２"]
    return [S(t) for t in texts]


def long_numerals():
    """numerals longer than the interpreter's own limit for int <-> str conversion (4300 digits); kept out of pool():
    Z3's string solver does not come back from replace / contains over operands of this length"""
    return [S(t) for t in ("1" * 4300, "1" * 4301, "9" * 5000, "0" * 4400 + "7")]


def index_pool():
    return [0, 1, 2, 3, 4, 5, 6, 7, 10, 100, 2**31, 2**32, 2**63 - 1, 2**63, 2**64 - 2, 2**64 - 1]
