"""A mixed workload producing claripy ASTs by every route the properties name:
construction, rewriting, folding, annotation changes, substitution, canonicalisation, ITE
relocation, explicit simplification and Z3 abstraction.  Yields (route, ast, descriptor|None)."""
from __future__ import annotations

import claripy

from vf.gen import build as bvb
from vf.gen import exprgen as G


class NE(claripy.Annotation):
    """non-eliminatable, non-relocatable"""

    eliminatable = False
    relocatable = False

    def __init__(self, tag):
        self.tag = tag

    def __hash__(self):
        return hash(("NE", self.tag))

    def __eq__(self, o):
        return type(o) is NE and o.tag == self.tag

    def __repr__(self):
        return f"NE({self.tag!r})"


class REL(claripy.Annotation):
    """non-eliminatable, relocatable (relocates to itself)"""

    eliminatable = False
    relocatable = True

    def __init__(self, tag):
        self.tag = tag

    def __hash__(self):
        return hash(("REL", self.tag))

    def __eq__(self, o):
        return type(o) is REL and o.tag == self.tag

    def __repr__(self):
        return f"REL({self.tag!r})"


class RELTAG(claripy.Annotation):
    """relocatable; relocate() returns a tagged copy, so the monitor can tell that relocate is what was applied"""

    eliminatable = False
    relocatable = True

    def __init__(self, tag, moved=0):
        self.tag = tag
        self.moved = moved

    def relocate(self, src, dst):
        return RELTAG(self.tag, self.moved + 1)

    def __hash__(self):
        return hash(("RELTAG", self.tag, self.moved))

    def __eq__(self, o):
        return type(o) is RELTAG and o.tag == self.tag and o.moved == self.moved

    def __repr__(self):
        return f"RELTAG({self.tag!r},{self.moved})"


class ELIM(claripy.Annotation):
    """eliminatable"""

    def __init__(self, tag):
        self.tag = tag

    def __hash__(self):
        return hash(("ELIM", self.tag))

    def __eq__(self, o):
        return type(o) is ELIM and o.tag == self.tag

    def __repr__(self):
        return f"ELIM({self.tag!r})"


class FLEX(claripy.Annotation):
    """whether it may be dropped or moved is a matter of the instance, not of the class (the flags are per-instance
    properties in claripy's API)"""

    def __init__(self, tag, elim, reloc):
        self.tag = tag
        self._elim = elim
        self._reloc = reloc

    @property
    def eliminatable(self):
        return self._elim

    @property
    def relocatable(self):
        return self._reloc

    def __hash__(self):
        return hash(("FLEX", self.tag, self._elim, self._reloc))

    def __eq__(self, o):
        return type(o) is FLEX and (o.tag, o._elim, o._reloc) == (self.tag, self._elim, self._reloc)

    def __repr__(self):
        return f"FLEX({self.tag!r},{'elim' if self._elim else 'keep'},{'reloc' if self._reloc else 'pinned'})"


def rand_annotation(rng):
    k = rng.random()
    t = rng.choice(["t0", "t1", 7])
    if k < 0.12:
        return FLEX(t, rng.random() < 0.2, rng.random() < 0.5)
    if k < 0.3:
        return NE(t)
    if k < 0.55:
        return REL(t)
    if k < 0.65:
        return ELIM(t)
    if k < 0.75:
        return claripy.annotation.UninitializedAnnotation()
    if k < 0.85:
        return claripy.annotation.StridedIntervalAnnotation(rng.choice([1, 2]), rng.choice([0, -1, -2]), rng.choice([5, 255]))
    if k < 0.93:
        return claripy.annotation.RegionAnnotation(rng.choice(["global", "stack"]), rng.choice([0, 0x1000]))
    return claripy.SimplificationAvoidanceAnnotation()


def build_annotated(d, rng, p=0.25, log=None):
    """Build descriptor d, annotating random leaves and inner nodes on the way up.
    log (list) receives (sub-AST before, annotation) pairs."""
    from vf.ref import bvsem

    o = bvsem.base(d[0])
    if o in ("int", "pybool"):
        return bvb.build(d)
    if o in ("bvs", "bvv", "bools", "boolv"):
        a = bvb.build(d)
    else:
        kids = [build_annotated(x, rng, p, log) if isinstance(x, list) else x for x in d[1:]]
        a = _apply(d, kids)
    if isinstance(a, claripy.ast.Base) and rng.random() < p:
        an = rand_annotation(rng)
        if log is not None:
            log.append((a, an))
        a = a.annotate(an)
    return a


def _apply(d, kids):
    """apply the operator of d to already-built children (mirror of vf.gen.build)"""
    import operator

    from vf.ref import bvsem

    o = bvsem.base(d[0])
    if o == "b2bv":
        return kids[0]
    if o in bvsem.BIN:
        a, b = kids
        if o in bvb.PYOPS:
            return bvb.PYOPS[o](a, b)
        return getattr(claripy, bvb.FUNOPS[o])(a, b)
    if o == "neg":
        return -kids[0]
    if o == "inv":
        return ~kids[0]
    if o == "reverse":
        return claripy.Reverse(kids[0])
    if o == "concat":
        return claripy.Concat(*kids)
    if o == "extract":
        return claripy.Extract(d[1], d[2], kids[2])
    if o == "zext":
        return claripy.ZeroExt(d[1], kids[1])
    if o == "sext":
        return claripy.SignExt(d[1], kids[1])
    if o in bvsem.CMP:
        a, b = kids
        if o == "eq":
            return a == b
        if o == "ne":
            return a != b
        return getattr(claripy, bvb.CMPFUN[o])(a, b)
    if o == "band":
        return claripy.And(*kids)
    if o == "bor":
        return claripy.Or(*kids)
    if o == "bnot":
        return claripy.Not(kids[0])
    if o == "beq":
        return kids[0] == kids[1]
    if o == "bne":
        return kids[0] != kids[1]
    if o == "ite":
        return claripy.If(*kids)
    raise ValueError(o)


def strip_surface(d):
    """Descriptor without python-int / bool-coercion leaves that cannot be annotated"""
    return d


def routes(rng, n, widths=None, depth=3):
    """Yield (route, ast, descriptor or None)."""
    for i in range(n):
        g = G.Gen(rng, nvars=rng.choice([1, 2, 3]), widths=widths or [1, 2, 3, 4, 8, 16, 32, 64])
        d = g.any(rng.choice([1, 2, depth]))
        if not bvb.well_formed(d):
            continue
        try:
            a = bvb.build(d)
        except claripy.errors.ClaripyError:
            continue
        yield "build", a, d
        k = i % 8
        try:
            if k == 0:
                b = build_annotated(d, rng, p=rng.choice([0.25, 0.6]))
                yield "annotated", b, d
                # substitution below annotated nodes: by something over other variables and of another depth
                leaves = [x for x in b.leaf_asts() if x.symbolic and isinstance(x, claripy.ast.BV)]
                if leaves:
                    old = rng.choice(leaves)
                    w = old.length
                    new = rng.choice([claripy.BVS("ra", w, explicit_name=True) * claripy.BVS("rb", w, explicit_name=True) + 3, claripy.BVS("ra", w, explicit_name=True), claripy.BVV(rng.getrandbits(w), w), ~claripy.BVS("rb", w, explicit_name=True)])
                    c = claripy.replace(b, old, new)
                    yield "annotated-replace", c, None
                    yield "annotated-replace-again", claripy.replace(c, claripy.BVS("ra", w, explicit_name=True), claripy.BVV(2, w)), None
            elif k == 1:
                leaves = [x for x in a.leaf_asts() if x.symbolic]
                if leaves:
                    old = rng.choice(leaves)
                    if isinstance(old, claripy.ast.BV):
                        new = rng.choice([claripy.BVV(rng.getrandbits(old.length), old.length), claripy.BVS("r", old.length, explicit_name=True) + 1, claripy.BVS("r", old.length, explicit_name=True)])
                    else:
                        new = rng.choice([claripy.BoolS("rb", explicit_name=True), claripy.true(), claripy.false()])
                    yield "replace", claripy.replace(a, old, new), None
            elif k == 2:
                yield "canonicalize", a.canonicalize()[2], None
            elif k == 3:
                yield "simplify", claripy.simplify(a), d
            elif k == 4:
                yield "z3-abstract", claripy.backends.z3._abstract(claripy.backends.z3.convert(a)), d
            elif k == 5:
                yield "excavate", claripy.excavate_ite(a), d
                yield "burrow", claripy.burrow_ite(a), d
            elif k == 6:
                subs = [x for x in a.children_asts() if not x.is_leaf()]
                if subs and isinstance(subs[0], claripy.ast.BV):
                    old = rng.choice([x for x in subs if isinstance(x, claripy.ast.BV)] or [subs[0]])
                    if isinstance(old, claripy.ast.BV):
                        yield "replace-inner", claripy.replace(a, old, claripy.BVS("ri", old.length, explicit_name=True)), None
            else:
                if isinstance(a, claripy.ast.BV):
                    b = bvb.build(g.bv(a.length, 1))
                    u = rng.choice([claripy.union, claripy.intersection, claripy.widen])(a, b)
                    yield "setop", u, None
                    leaves = [x for x in u.leaf_asts() if x.symbolic and isinstance(x, claripy.ast.BV)]
                    if leaves:
                        old = rng.choice(leaves)
                        yield "setop-replace", claripy.replace(u, old, claripy.BVS("rs", old.length, explicit_name=True)), None
                        yield "setop-replace-const", claripy.replace(u, old, claripy.BVV(1, old.length)), None
                    # a set operation over constants only, one of which is then replaced by a variable
                    k1, k2 = claripy.BVV(rng.getrandbits(a.length), a.length), claripy.BVV(rng.getrandbits(a.length), a.length)
                    if k1 is not k2:
                        uc = rng.choice([claripy.union, claripy.intersection, claripy.widen])(k1, k2)
                        yield "setop", uc, None
                        yield "setop-replace", claripy.replace(uc, k1, claripy.BVS("rs", a.length, explicit_name=True)), None
                        yield "setop-replace", claripy.replace_dict(uc, {k2.hash(): a}), None
        except claripy.errors.ClaripyError:
            continue
