"""Workload generators for BV/Bool operation trees (descriptors).  Pure Python."""
from __future__ import annotations

import itertools

BIN_ALL = ["add", "sub", "mul", "udiv", "urem", "sdiv", "srem", "and", "or", "xor", "shl", "ashr", "lshr", "rol", "ror"]
BIN_NODIV = [o for o in BIN_ALL if o not in ("udiv", "urem", "sdiv", "srem")]
CMP_ALL = ["eq", "ne", "ult", "ule", "ugt", "uge", "slt", "sle", "sgt", "sge"]
WIDTHS = [1, 2, 3, 4, 5, 7, 8, 9, 13, 16, 24, 31, 32, 33, 48, 63, 64, 65, 128, 256]


def bvs(name, w):
    return ["bvs", f"{name}{w}", w]


def consts(w, rng=None, extra=0):
    m = (1 << w) - 1
    s = {0, 1, 2, 3, m, m - 1, 1 << (w - 1), (1 << (w - 1)) - 1, ((1 << (w - 1)) + 1) & m, w & m, (w - 1) & m, (w + 1) & m, 255 & m, 0x80 & m, 0xFFFF & m}
    for k in range(0, w, max(1, w // 8)):
        s.add((1 << k) & m)
        s.add(((1 << k) - 1) & m)
        s.add((m << k) & m)
    if w >= 8:
        s.add(int.from_bytes(bytes([0xFF, 0x00] * ((w + 15) // 16))[: (w + 7) // 8], "big") & m)
    if rng is not None:
        for _ in range(extra):
            s.add(rng.getrandbits(w))
    return sorted(x & m for x in s)


def pyints(w, rng):
    """Python ints a caller might write: in range, negative, >= 2^w."""
    m = 1 << w
    return rng.choice([0, 1, 2, -1, -2, m - 1, m, m + 1, -m, w, 255, rng.getrandbits(w), -rng.getrandbits(w) - 1, rng.getrandbits(w) + m])


class Gen:
    def __init__(self, rng, nvars=3, allow_div=True, widths=None, surface=True, wide=False, closed=False, nbools=None):
        self.rng = rng
        self.nvars = nvars
        self.allow_div = allow_div
        self.widths = widths or [1, 2, 3, 4, 5, 8, 16, 32, 64]
        self.surface = surface
        self.wide = wide
        # closed: only variables of width widths[0] (and nbools Bool variables) ever occur; other widths are
        # produced from them by extract/concat, so the variable universe stays fixed (solver histories)
        self.closed = closed
        self.nbools = min(3, nvars) if nbools is None else nbools

    def const(self, w):
        r = self.rng
        if r.random() < 0.7:
            return ["bvv", r.choice(consts(w)), w]
        return ["bvv", r.getrandbits(w), w]

    def var(self, w):
        if self.closed and w != self.widths[0]:
            b = self.widths[0]
            if w < b:
                lo = self.rng.randrange(0, b - w + 1)
                return ["extract", lo + w - 1, lo, self.var(b)]
            parts = [self.var(b) for _ in range((w + b - 1) // b)]
            wide = ["concat", *parts] if len(parts) > 1 else parts[0]
            return wide if len(parts) * b == w else ["extract", w - 1, 0, wide]
        return bvs("abcd"[self.rng.randrange(self.nvars)], w)

    def boolvar(self):
        if self.closed and self.nbools == 0:
            w = self.widths[0]
            return [self.rng.choice(CMP_ALL), self.var(w), self.const(w)]
        return ["bools", "pqr"[self.rng.randrange(self.nbools if self.closed else min(3, self.nvars))]]

    def leaf(self, w):
        return self.var(w) if self.rng.random() < 0.6 else self.const(w)

    def bv(self, w, depth):
        r = self.rng
        if depth <= 0 or r.random() < 0.12:
            return self.leaf(w)
        k = r.random()
        if k < 0.45:
            ops = BIN_ALL if self.allow_div else BIN_NODIV
            o = r.choice(ops)
            a = self.bv(w, depth - 1)
            b = self.bv(w, depth - 1)
            if self.surface and r.random() < 0.12:
                # a python int on one side (reversed operators when on the left)
                if r.random() < 0.5 and a[0] != "int":
                    b = ["int", pyints(w, r)]
                elif b[0] != "int":
                    a = ["int", pyints(w, r)]
            elif self.surface and r.random() < 0.04:
                b = ["b2bv", self.boolx(depth - 1)]
            if self.surface and o in ("sdiv", "lshr") and r.random() < 0.3 and a[0] not in ("int", "b2bv"):
                o += "@meth"
            if self.surface and o == "udiv" and r.random() < 0.3:
                o += "@div"
            return [o, a, b]
        if k < 0.53:
            return [r.choice(["neg", "inv"]), self.bv(w, depth - 1)]
        if k < 0.63:
            # extract from something wider
            extra_hi = r.choice([0, 0, 1, 2, 8, w])
            lo = r.choice([0, 0, 1, 3, 8])
            inner = self.bv(w + lo + extra_hi, depth - 1)
            op = "extract"
            if self.surface:
                op = r.choice(["extract", "extract@slice", "extract@negslice", "extract@openhi", "extract@openlo", "extract@index"])
            return [op, w + lo - 1, lo, inner]
        if k < 0.72 and w >= 2:
            # concat of 2..3 parts
            n = 2 if w < 3 or r.random() < 0.7 else 3
            cuts = sorted(r.sample(range(1, w), n - 1))
            ws = [b - a for a, b in zip([0, *cuts], [*cuts, w])]
            return [r.choice(["concat", "concat@meth"]) if self.surface else "concat", *[self.bv(x, depth - 1) for x in ws]]
        if k < 0.80 and w >= 2:
            n = r.randrange(1, w)
            return [r.choice(["zext", "sext", "zext@meth", "sext@meth"]) if self.surface else r.choice(["zext", "sext"]), n, self.bv(w - n, depth - 1)]
        if k < 0.84 and w % 8 == 0:
            return [r.choice(["reverse", "reverse@prop"]), self.bv(w, depth - 1)]
        if k < 0.96:
            t = self.bv(w, depth - 1)
            f = self.bv(w, depth - 1)
            if self.surface and r.random() < 0.1:
                f = ["int", pyints(w, r)]
            return ["ite", self.boolx(depth - 1), t, f]
        return ["zext", 0, self.bv(w, depth - 1)] if r.random() < 0.5 else ["sext", 0, self.bv(w, depth - 1)]

    def boolx(self, depth):
        r = self.rng
        if depth <= 0 or r.random() < 0.08:
            k = r.random()
            if k < 0.5:
                return self.boolvar()
            if k < 0.6:
                return ["boolv", r.random() < 0.5]
            w = r.choice(self.widths)
            return [r.choice(CMP_ALL), self.var(w), self.const(w)]
        k = r.random()
        if k < 0.5:
            w = r.choice(self.widths)
            o = r.choice(CMP_ALL)
            a, b = self.bv(w, depth - 1), self.bv(w, depth - 1)
            if self.surface and r.random() < 0.12:
                if r.random() < 0.5:
                    b = ["int", pyints(w, r)]
                else:
                    a = ["int", pyints(w, r)]
                    if b[0] == "int":
                        b = self.var(w)
            if self.surface and o in ("ult", "ule", "ugt", "uge") and r.random() < 0.4:
                o += "@py"
            elif self.surface and o not in ("eq", "ne") and r.random() < 0.3 and a[0] != "int":
                o += "@meth"
            return [o, a, b]
        if k < 0.7:
            n = r.choice([2, 2, 2, 3, 4])
            o = r.choice(["band", "bor"])
            if n == 2 and self.surface and r.random() < 0.4:
                o += "@py"
            args = [self.boolx(depth - 1) for _ in range(n)]
            if r.random() < 0.15:
                args[r.randrange(n)] = args[0]  # duplicates exercise the flattening filters
            return [o, *args]
        if k < 0.82:
            return [r.choice(["bnot", "bnot@py"]) if self.surface else "bnot", self.boolx(depth - 1)]
        if k < 0.9:
            return [r.choice(["beq", "bne"]), self.boolx(depth - 1), self.boolx(depth - 1)]
        return ["ite", self.boolx(depth - 1), self.boolx(depth - 1), self.boolx(depth - 1)]

    def any(self, depth):
        if self.rng.random() < 0.35:
            return self.boolx(depth)
        return self.bv(self.rng.choice(self.widths), depth)


# ---------------------------------------------------------------------------------------------
# exhaustive small-width families


def exhaustive_level1(w):
    """every unary/binary op on (x, c), (c, x), (x, y), (c1, c2) for all constants at width w."""
    x, y = bvs("a", w), bvs("b", w)
    cs = list(range(1 << w))
    for o in ("neg", "inv"):
        yield [o, x]
        for c in cs:
            yield [o, ["bvv", c, w]]
    for o in BIN_ALL + CMP_ALL:
        yield [o, x, y]
        yield [o, x, x]
        for c in cs:
            yield [o, x, ["bvv", c, w]]
            yield [o, ["bvv", c, w], x]
            for c2 in cs:
                yield [o, ["bvv", c, w], ["bvv", c2, w]]


def exhaustive_level2(w, ops1=None, ops2=None):
    """op2(op1(x, c1), c2), op2(c2, op1(x, c1)), op2(op1(c1, x), c2) for every operator pair and
    every constant pair at width w; comparisons as outer ops included."""
    x = bvs("a", w)
    cs = list(range(1 << w))
    ops1 = ops1 or BIN_ALL
    ops2 = ops2 or (BIN_ALL + CMP_ALL)
    for o1 in ops1:
        for c1 in cs:
            inner_a = [o1, x, ["bvv", c1, w]]
            inner_b = [o1, ["bvv", c1, w], x]
            for o2 in ops2:
                for c2 in cs:
                    k2 = ["bvv", c2, w]
                    yield [o2, inner_a, k2]
                    yield [o2, k2, inner_a]
                    yield [o2, inner_b, k2]


def exhaustive_unary_over(w):
    x, y = bvs("a", w), bvs("b", w)
    cs = list(range(1 << w))
    for o1 in BIN_ALL:
        for o in ("neg", "inv"):
            yield [o, [o1, x, y]]
            for c in cs:
                yield [o, [o1, x, ["bvv", c, w]]]
    for c1, c2 in itertools.product(cs, cs):
        for o in ("neg", "inv"):
            yield [o, ["ite", ["bools", "p"], ["bvv", c1, w], ["bvv", c2, w]]]
            yield [o, ["ite", ["bools", "p"], ["bvv", c1, w], bvs("b", w)]]
        for c3 in cs:
            for o2 in CMP_ALL[:2]:
                yield [o2, ["ite", ["bools", "p"], ["bvv", c1, w], ["bvv", c2, w]], ["bvv", c3, w]]
                yield [o2, ["bvv", c3, w], ["ite", ["bools", "p"], ["bvv", c1, w], ["bvv", c2, w]]]


# ---------------------------------------------------------------------------------------------
# rule templates: one per rewrite in simplifications.py / If / eager folding


def templates(rng, w=None):
    """Yield descriptors instantiating every rewrite rule's *shape*, with parameters that
    both satisfy and violate each rule's unstated assumptions."""
    r = rng
    w = w or r.choice([1, 2, 3, 4, 5, 8, 13, 16, 32, 64, 65])
    g = Gen(r, widths=[w], surface=False)
    x, y = bvs("a", w), bvs("b", w)
    c = lambda: ["bvv", r.choice(consts(w, r, 2)), w]  # noqa: E731
    sub = lambda: g.bv(w, r.choice([0, 0, 1, 2]))  # noqa: E731
    p, q = ["bools", "p"], ["bools", "q"]
    T = []
    # shifts
    T += [["shl", ["shl", sub(), c()], c()], ["shl", ["shl", x, y], c()], ["shl", ["shl", x, c()], y]]
    T += [[o, sub(), ["bvv", 0, w]] for o in ("shl", "ashr", "lshr")]
    if w >= 2:
        n = r.randrange(1, w)
        inner = g.bv(w - n, 1)
        for o in ("ashr", "lshr"):
            for k in (0, 1, n - 1, n, n + 1, w - n - 1, w - n, w - n + 1, w - 1, w, w + 1, (1 << w) - 1):
                T.append([o, ["zext", n, inner], ["bvv", k & ((1 << w) - 1), w]])
                T.append([o, ["concat", ["bvv", 0, n], inner], ["bvv", k & ((1 << w) - 1), w]])
                T.append([o, ["concat", c_w(r, n), inner], ["bvv", k & ((1 << w) - 1), w]])
    # eq/ne
    for o in ("eq", "ne"):
        T += [[o, sub(), sub()], [o, x, x], [o, c(), x], [o, ["sub", x, c()], c()], [o, ["sub", c(), x], c()]]
        T += [[o, ["xor", x, c()], ["bvv", 0, w]], [o, ["xor", c(), x], ["bvv", 0, w]], [o, ["xor", x, ["bvv", 1, w]], ["bvv", 0, w]], [o, ["xor", ["bvv", 1, w], x], ["bvv", 0, w]]]
        m = c()
        T += [[o, ["xor", ["and", x, m], m], ["bvv", 0, w]], [o, ["xor", ["and", m, x], m], ["bvv", 0, w]], [o, ["xor", ["and", x, m], c()], ["bvv", 0, w]]]
        T += [[o, ["and", x, c()], c()], [o, ["and", c(), x], c()], [o, ["and", sub(), c()], c()]]
        k1, k2 = c(), c()
        T += [[o, ["ite", p, k1, k2], k1], [o, ["ite", p, k1, k2], k2], [o, k1, ["ite", p, k1, k2]], [o, k2, ["ite", p, k1, k2]]]
        T += [[o, ["ite", p, x, y], x], [o, ["ite", p, x, y], y], [o, x, ["ite", p, x, y]], [o, y, ["ite", p, x, y]]]
        T += [[o, ["ite", p, k1, k1], k1], [o, ["ite", p, x, k1], k1], [o, k1, ["ite", p, k1, x]]]
        if w % 8 == 0:
            T += [[o, ["reverse", x], ["reverse", y]], [o, ["reverse", x], ["reverse", c()]]]
        if w >= 2:
            n = r.randrange(1, w)
            inner = g.bv(w - n, 1)
            for outer in (["zext", n, inner], ["concat", ["bvv", 0, n], inner], ["sext", n, inner], ["concat", c_w(r, n), inner], ["concat", inner, c_w(r, n)]):
                T += [[o, outer, c()], [o, c(), outer], [o, outer, ["zext", n, c_w(r, w - n)]]]
                # extract of zext/concat compared against constants
                for hi in {0, w - n - 1, w - n, w - 1, max(0, w - 2)}:
                    if 0 <= hi < w:
                        T.append([o, ["extract", hi, 0, outer], c_w(r, hi + 1)])
        T += [[o, p, ["boolv", True]], [o, ["boolv", False], p]] if False else []
    # unsigned >= against zext
    if w >= 2:
        n = r.randrange(1, w)
        inner = g.bv(w - n, 1)
        for cmpo in ("uge", "ugt", "ule", "ult", "sge", "slt"):
            T += [[cmpo, ["zext", n, inner], c()], [cmpo, ["concat", ["bvv", 0, n], inner], c()], [cmpo, c(), ["zext", n, inner]]]
    # Not over comparisons, And/Or shapes
    for cmpo in CMP_ALL:
        T.append(["bnot", [cmpo, sub(), sub()]])
    T += [["bnot", ["bnot", p]], ["band", p, ["boolv", True]], ["band", p, ["boolv", False]], ["bor", p, ["boolv", True]], ["bor", ["boolv", False], p, q]]
    k1, k2 = c(), c()
    T += [["band", ["eq", x, k1], ["eq", x, k2]], ["band", ["eq", x, k1], ["eq", x, k1]], ["band", ["eq", x, k1], ["ne", x, k2]], ["band", ["eq", x, k1], ["ne", x, k1]]]
    T += [["band", ["eq", x, y], ["ne", x, y]], ["band", ["uge", x, y], ["ne", x, y]], ["band", ["uge", x, k1], ["ne", x, k1]], ["band", ["uge", x, y], ["ne", y, x]], ["band", ["ne", x, y], ["uge", x, y]]]
    T += [["band", ["eq", x, k1], ["eq", x, k2], ["ne", x, c()]], ["band", ["eq", k1, x], ["ne", x, k2]], ["band", ["band", p, q], ["band", q, p]], ["bor", ["bor", p, q], ["bor", q, ["bnot", p]]], ["band", ["ult", x, y], ["ult", y, x]]]
    T += [["band", ["eq", x, k1], ["ult", x, k2]], ["band", ["eq", x, y], ["eq", x, k1]], ["band", ["eq", y, x], ["eq", x, k1], ["ne", k2, x]]]
    # add/sub constant re-association
    T += [["add", ["sub", sub(), c()], c()], ["sub", ["sub", sub(), c()], c()], ["sub", ["add", sub(), c()], c()], ["sub", ["add", x, y, ] , c()], ["sub", ["add", ["add", x, y], c()], c()]]
    T += [["sub", x, x], ["sub", sub(), ["bvv", 0, w]], ["add", sub(), ["bvv", 0, w]], ["add", c(), ["add", c(), x]], ["add", ["add", x, c()], ["add", y, c()]], ["mul", ["mul", x, c()], ["mul", y, c()]]]
    T += [["sub", ["add", c(), x], c()], ["sub", c(), ["sub", x, c()]], ["add", ["sub", c(), x], c()]]
    # xor / or / and identities and flattening
    for o in ("xor", "or", "and"):
        T += [[o, x, x], [o, x, ["bvv", 0, w]], [o, ["bvv", 0, w], x], [o, x, ["bvv", (1 << w) - 1, w]], [o, ["bvv", (1 << w) - 1, w], x], [o, [o, x, y], [o, y, x]], [o, [o, x, c()], [o, c(), y]], [o, [o, x, y], x], [o, c(), c()]]
    T += [["xor", ["xor", x, y], ["xor", x, ["xor", y, x]]], ["xor", ["xor", x, c()], ["xor", x, c()]]]
    # If(c,1,0) idioms
    one, zero = ["bvv", 1 & ((1 << w) - 1), w], ["bvv", 0, w]
    T += [["and", ["ite", p, one, zero], ["ite", q, one, zero]], ["and", ["ite", p, one, zero], ["ite", q, zero, one]], ["and", ["ite", p, c(), zero], ["ite", q, one, zero]]]
    T += [["inv", ["ite", p, one, zero]], ["inv", ["ite", p, one, sub()]], ["inv", ["ite", p, zero, one]], ["inv", ["ite", p, one, c()]]]
    T += [["extract", 0, 0, ["ite", p, one, zero]], ["extract", w - 1, w - 1, ["ite", p, c(), c()]], ["extract", 0, 0, ["inv", sub()]], ["extract", w - 1, 0, sub()]]
    # If shortcuts
    T += [["ite", ["boolv", True], x, y], ["ite", ["boolv", False], x, y], ["ite", p, x, x], ["ite", p, ["ite", p, x, y], c()], ["ite", p, c(), ["ite", p, x, y]], ["ite", p, ["ite", ["bnot", p], x, y], c()], ["ite", p, c(), ["ite", ["bnot", p], x, y]]]
    T += [["ite", p, ["boolv", True], ["boolv", False]], ["ite", p, ["boolv", False], ["boolv", True]], ["ite", p, q, q], ["ite", ["eq", x, x], x, y], ["ite", ["ne", c(), c()], x, y]]
    # extract over everything
    if w >= 2:
        hi = r.randrange(0, w)
        lo = r.randrange(0, hi + 1)
        for o in ("and", "or", "xor", "add"):
            T.append(["extract", hi, lo, [o, sub(), sub()]])
            T.append(["extract", hi, lo, [o, sub(), c()]])
        T += [["extract", hi, lo, ["inv", sub()]], ["extract", hi, lo, ["ite", p, c(), c()]], ["extract", hi, lo, ["ite", p, x, c()]]]
        T.append(["extract", hi - lo, 0, ["extract", hi, lo, g.bv(w, 1)]] if hi - lo >= 0 else x)
        n = r.randrange(1, w)
        inner = g.bv(w - n, 1)
        for outer in (["zext", n, inner], ["sext", n, inner], ["concat", g.bv(n, 1), inner], ["concat", inner, g.bv(n, 1)]):
            T.append(["extract", hi, lo, outer])
            T.append(["extract", w - n - 1, 0, outer])
            T.append(["extract", w - 1, w - n, outer])
        if w >= 3:
            a, b2, c3 = _split3(r, w)
            cc = ["concat", g.bv(a, 1), g.bv(b2, 1), g.bv(c3, 1)]
            T += [["extract", hi, lo, cc], ["extract", w - 1, c3, cc], ["extract", b2 + c3 - 1, c3, cc], ["extract", c3 - 1, 0, cc], ["extract", w - a - 1, 0, cc]]
    # concat shapes
    if w >= 2:
        n = r.randrange(1, w)
        T += [["concat", c_w(r, n), c_w(r, w - n)], ["concat", ["concat", g.bv(n, 1)], g.bv(w - n, 1)]]
        big = g.bv(w + 3, 1)
        T += [["concat", ["extract", w + 2, n + 3, big], ["extract", n + 2, 3, big]], ["concat", ["extract", w + 2, n + 3, big], ["extract", n + 1, 2, big]]]
        if w >= 3:
            a, b2, c3 = _split3(r, w)
            T += [["concat", c_w(r, a), c_w(r, b2), g.bv(c3, 1)], ["concat", g.bv(a, 1), c_w(r, b2), c_w(r, c3)], ["concat", ["concat", g.bv(a, 1), g.bv(b2, 1)], g.bv(c3, 1)]]
            # a mask of low ones over a Concat of 2..4 parts (rewritten to a ZeroExt of the low parts)
            parts = [g.bv(a, 1), g.bv(b2, 1), g.bv(c3, 1)]
            cc3 = ["concat", *parts]
            for low in (c3, b2 + c3, b2 + c3 - 1 if b2 + c3 > 1 else 1, w - 1):
                mk = ["bvv", (1 << low) - 1, w]
                T += [["and", cc3, mk], ["and", mk, cc3]]
            T += [["and", ["concat", parts[0], ["concat", parts[1], parts[2]]], ["bvv", (1 << (b2 + c3)) - 1, w]], ["and", ["concat", c_w(r, a), parts[1], parts[2]], ["bvv", (1 << (b2 + c3)) - 1, w]]]
            if w >= 4:
                a4 = _split3(r, w - 1)
                p4 = [g.bv(1, 1), g.bv(a4[0], 1), g.bv(a4[1], 1), g.bv(a4[2], 1)]
                T += [["and", ["concat", *p4], ["bvv", (1 << (w - 1)) - 1, w]], ["and", ["concat", *p4], ["bvv", (1 << (a4[1] + a4[2])) - 1, w]]]
            # slices of one value around, before and after unrelated operands (the slice-merging rule keeps state
            # across operands): adjacent, adjacent with something in between, overlapping, out of order, three in a row
            hi, m = a + b2 + c3 + 2, b2 + c3 + 3
            lo = r.randrange(0, 3)
            up, dn = ["extract", hi, m, big], ["extract", m - 1, lo, big]
            mid, mid2 = g.bv(r.choice([m - lo, a, 1]), 1), c_w(r, r.choice([1, 8]))
            T += [["concat", up, mid, dn], ["concat", up, mid, mid2, dn], ["concat", mid, up, dn], ["concat", up, dn, mid], ["concat", dn, up], ["concat", up, dn, up, dn]]
            T += [["concat", up, ["extract", m - 2, lo, big]], ["concat", up, ["extract", m, lo, big]], ["concat", up, mid, ["extract", m - 1, lo, g.bv(hi + 1, 1)]]]
            if m - 1 - lo >= 2:
                q = r.randrange(lo + 1, m - 1)
                T += [["concat", up, ["extract", m - 1, q + 1, big], ["extract", q, lo, big]], ["concat", up, ["extract", m - 1, q + 1, big], mid, ["extract", q, lo, big]]]
    T += [["zext", 0, x], ["sext", 0, x]]
    if w >= 3:
        a, b2, _ = _split3(r, w)
        T += [["zext", a, ["zext", b2, g.bv(w - a - b2, 1)]], ["sext", a, ["zext", b2, g.bv(w - a - b2, 1)]], ["sext", a, ["sext", b2, g.bv(w - a - b2, 1)]]]
    # Reverse games
    if w % 8 == 0:
        T += [["reverse", ["reverse", sub()]], ["reverse", sub()], ["reverse", c()]]
        if w >= 16:
            nb = w // 8
            k = r.randrange(1, nb)
            T += [["reverse", ["concat", g.bv(8 * k, 1), g.bv(w - 8 * k, 1)]], ["reverse", ["concat", ["reverse", g.bv(8 * k, 1)], ["reverse", g.bv(w - 8 * k, 1)]]]]
            T += [["reverse", ["concat", *[["extract", 8 * i + 7, 8 * i, x] for i in range(nb)]]], ["reverse", ["concat", *[["extract", 8 * i + 7, 8 * i, x] for i in reversed(range(nb))]]]]
            T += [["reverse", ["concat", *[g.bv(8, 1) for _ in range(nb)]]]]
            big = g.bv(w + 16, 1)
            T += [["reverse", ["extract", w + 7, 8, ["reverse", big]]], ["reverse", ["extract", w + 3, 4, ["reverse", big]]], ["reverse", ["concat", *[["extract", 8 * i + 7, 8 * i, big] for i in range(nb)]]]]
            for i in range(nb):
                T.append(["extract", 8 * i + 7, 8 * i, ["reverse", x]])
            T += [["extract", 11, 4, ["reverse", x]], ["extract", w - 1, 8, ["reverse", ["concat", g.bv(8 * k, 1), g.bv(w - 8 * k, 1)]]], ["extract", w - 9, 0, ["reverse", ["concat", c_w(r, 8 * k), c_w(r, w - 8 * k)]]]]
    # rotate-shift-mask:  ((A << a) | (A >>l (N-a))) & mask
    for N in (w,):
        if N >= 2:
            a = r.randrange(1, N)
            A = g.bv(N, 1)
            for msk in (0xFFFF, 0xFFFFFFFF, (0xFFFF << a) & ((1 << N) - 1), _rol(0xFFFF, a, N), _rol(0xFFFFFFFF, a, N), r.getrandbits(N)):
                T.append(["and", ["or", ["shl", A, ["bvv", a, N]], ["lshr", A, ["bvv", N - a, N]]], ["bvv", msk & ((1 << N) - 1), N]])
            T.append(["and", ["or", ["shl", A, ["bvv", a, N]], ["lshr", A, ["bvv", (N - a + 1) % (1 << N), N]]], ["bvv", _rol(0xFFFF, a, N), N]])
    # signed min/max idiom
    q_, r_ = x, y
    for (s0, s1, u1) in ((q_, r_, q_), (r_, q_, r_)):
        s = ["sub", s0, s1]
        t = ["xor", q_, r_]
        u = ["xor", s, u1]
        v = ["and", u, t]
        ww = ["xor", v, s]
        for dist in (w - 1, (w - 2) % (1 << w)):
            xx = ["ashr", ww, ["bvv", dist & ((1 << w) - 1), w]]
            yy = ["and", xx, t]
            T += [["xor", q_, yy], ["xor", yy, q_]]
    T += list(_minmax_near(r, x, y, bvs("c", w), w))
    # rotate-shift-mask near misses: two different values, symbolic amounts, amounts not summing to the width
    if w >= 2:
        a = r.randrange(1, w)
        A, B = g.bv(w, 1), bvs("c", w)
        good = _rol(0xFFFF if w <= 32 else 0xFFFFFFFF, a, w)
        T.append(["and", ["or", ["shl", A, ["bvv", a, w]], ["lshr", B, ["bvv", w - a, w]]], ["bvv", good, w]])
        T.append(["and", ["or", ["shl", A, y], ["lshr", A, ["bvv", w - a, w]]], ["bvv", good, w]])
        T.append(["and", ["or", ["shl", A, ["bvv", a, w]], ["lshr", A, ["sub", ["bvv", w & ((1 << w) - 1), w], y]]], ["bvv", good, w]])
        T.append(["and", ["or", ["lshr", A, ["bvv", w - a, w]], ["shl", A, ["bvv", a, w]]], ["bvv", good, w]])
        T.append(["and", ["or", ["shl", A, ["bvv", a, w]], ["ashr", A, ["bvv", w - a, w]]], ["bvv", good, w]])
        T.append(["and", ["or", ["shl", A, ["bvv", a, w]], ["lshr", A, ["bvv", w - a, w]], B], ["bvv", good, w]])
        T.append(["and", ["or", ["shl", A, ["bvv", a, w]], ["lshr", A, ["bvv", w - a, w]]], y])
    # narrower values rotated inside 32/64 bits (the rule keys on the two amounts summing to 32 or 64, not on the width)
    for N, wide in ((32, 40), (64, 72), (32, 64), (16, 32)):
        a = r.randrange(1, N)
        A = bvs("d", wide)
        for msk in (_rol(0xFFFF, a, N), _rol(0xFFFFFFFF, a, N), _rol(0xFFFF, a, wide), r.getrandbits(wide)):
            T.append(["and", ["or", ["shl", A, ["bvv", a, wide]], ["lshr", A, ["bvv", N - a, wide]]], ["bvv", msk & ((1 << wide) - 1), wide]])
    # single-bit masks in every operand position of two- and three-operand conjunctions
    for o in ("eq", "ne"):
        m1 = ["bvv", 1 << r.randrange(w), w]
        for inner in (["and", m1, x, y], ["and", x, m1, y], ["and", x, y, m1], ["and", m1, x], ["and", x, m1], ["and", m1, ["and", x, y]], ["and", ["and", m1, x], y]):
            T += [[o, ["xor", inner, m1], ["bvv", 0, w]], [o, ["xor", m1, inner], ["bvv", 0, w]], [o, inner, m1], [o, inner, ["bvv", 0, w]]]
    # operands that cancel or merge only after nested nodes were flattened: what is left must be reported as what is left
    z = bvs("c", w)
    k_ = c()
    for o in ("xor", "and", "or", "add", "mul"):
        T += [[o, [o, y, [o, k_, x]], x], [o, [o, x, y], x], [o, x, [o, y, x]], [o, [o, x, z], [o, z, y]], [o, [o, x, k_], [o, k_, y]], [o, [o, x, y], [o, y, x]]]
        T += [[o, [o, sub(), x], x], [o, [o, x, ["bvv", 0, w]], y], [o, [o, [o, x, y], z], [o, x, z]]]
    T += [["sub", ["add", x, y], y], ["add", ["sub", x, y], y], ["add", ["add", x, k_], ["neg", k_]], ["xor", ["xor", x, ["inv", y]], ["inv", y]]]
    T = [t for t in T if isinstance(t, list)]
    # the same shapes with a third operand put into one commutative two-operand node (rules that look at
    # args[0] / args[1] of a flattened node must not forget the rest)
    extra = []
    for t in T:
        if r.random() < 0.5:
            v = _inflate(r, t)
            if v is not None:
                extra.append(v)
    return [_binarize(r, t) for t in T + extra]


def _binarize(r, t):
    """descriptors of and/or/xor/add/mul take two operands: write a longer operand list as a nest of two-operand
    nodes (left- or right-leaning); claripy flattens the nest into one node again"""
    if not isinstance(t, list) or not t or not isinstance(t[0], str) or t[0] in ("bvv", "bvs", "bools", "boolv", "int"):
        return t
    t = [t[0], *[_binarize(r, a) for a in t[1:]]]
    if t[0] in ("and", "or", "xor", "add", "mul") and len(t) > 3:
        args = t[1:]
        if r.random() < 0.5:
            acc = args[0]
            for a in args[1:]:
                acc = [t[0], acc, a]
        else:
            acc = args[-1]
            for a in reversed(args[:-1]):
                acc = [t[0], a, acc]
        return acc
    return t


_NARY = {"and", "or", "xor", "add", "mul", "band", "bor"}


def _inflate(r, t):
    from vf.ref import bvsem

    paths = []

    def walk(d, path):
        if not isinstance(d, list) or not d or not isinstance(d[0], str):
            return
        if d[0] in ("bvv", "bvs", "bools", "boolv"):
            return
        if d[0].split("@")[0] in _NARY and len(d) == 3:
            paths.append(path)
        for i, a in enumerate(d[1:], 1):
            walk(a, (*path, i))

    walk(t, ())
    if not paths:
        return None
    path = r.choice(paths)
    import copy

    t2 = copy.deepcopy(t)
    node = t2
    for i in path:
        node = node[i]
    try:
        if node[0].split("@")[0] in ("band", "bor"):
            new = ["bools", "r"]
        else:
            new = bvs("e", bvsem.width(node))
    except Exception:  # noqa: BLE001
        return None
    node.insert(r.randrange(1, len(node) + 1), new)
    return t2


def _minmax_near(r, q, rr, z, w):
    """the signed min/max idiom with exactly one piece changed (each change reaches a different exit of the matcher)"""
    sh = ["bvv", (w - 1) & ((1 << w) - 1), w]

    def idiom(s=None, t=None, u=None, v=None, ww=None, xx=None, yy=None, out=None, flip=False):
        s0 = s or ["sub", q, rr]
        t0 = t or ["xor", q, rr]
        u0 = u or ["xor", s0, q]
        v0 = v or ["and", u0, t0]
        w0 = ww or ["xor", v0, s0]
        x0 = xx or ["ashr", w0, sh]
        y0 = yy or ["and", x0, t0]
        return out(y0) if out else (["xor", y0, q] if flip else ["xor", q, y0])

    yield idiom(s=["sub", rr, q])  # subtraction the other way round, u still against q
    yield idiom(s=["add", q, rr])
    yield idiom(s=["sub", q, z])
    yield idiom(u=["xor", ["sub", q, rr], z])
    yield idiom(u=["xor", ["sub", q, rr], rr])  # u against r with s = q - r
    yield idiom(u=["or", ["sub", q, rr], q])
    yield idiom(v=["and", ["xor", ["sub", q, rr], q], ["xor", q, z]])
    yield idiom(v=["or", ["xor", ["sub", q, rr], q], ["xor", q, rr]])
    yield idiom(v=["and", ["xor", ["sub", q, rr], q], ["xor", q, rr], z])
    yield idiom(ww=["xor", ["and", ["xor", ["sub", q, rr], q], ["xor", q, rr]], ["sub", q, z]])
    yield idiom(ww=["xor", ["and", ["xor", ["sub", q, rr], q], ["xor", q, rr]], ["sub", rr, q]])
    yield idiom(ww=["or", ["and", ["xor", ["sub", q, rr], q], ["xor", q, rr]], ["sub", q, rr]])
    base_w = ["xor", ["and", ["xor", ["sub", q, rr], q], ["xor", q, rr]], ["sub", q, rr]]
    yield idiom(xx=["lshr", base_w, sh])
    yield idiom(xx=["ashr", base_w, z])
    yield idiom(xx=["shl", base_w, sh])
    yield idiom(yy=["and", ["ashr", base_w, sh], ["xor", q, z]])
    yield idiom(yy=["and", ["ashr", base_w, sh], ["xor", rr, q]])
    yield idiom(yy=["and", ["ashr", base_w, sh], ["xor", q, rr], z])
    yield idiom(yy=["or", ["ashr", base_w, sh], ["xor", q, rr]])
    yield idiom(out=lambda y0: ["xor", z, y0])
    yield idiom(out=lambda y0: ["xor", rr, y0])
    yield idiom(out=lambda y0: ["xor", q, y0, z])
    yield idiom(out=lambda y0: ["or", q, y0])
    yield idiom(t=["xor", rr, q])
    yield idiom(t=["xor", q, rr, z])
    yield idiom(flip=True)


def _rol(v, a, n):
    m = (1 << n) - 1
    v &= m
    a %= n
    return ((v << a) | (v >> (n - a))) & m if a else v


def c_w(r, w):
    return ["bvv", r.choice(consts(w, r, 2)), w]


def _split3(r, w):
    a = r.randrange(1, w - 1)
    b = r.randrange(1, w - a)
    return a, b, w - a - b
