"""Descriptor -> claripy AST through the *public* constructors and operators."""
from __future__ import annotations

import operator

import claripy

from vf.ref import bvsem
from vf.ref.bvsem import base

PYOPS = {
    "add": operator.add,
    "sub": operator.sub,
    "mul": operator.mul,
    "udiv": operator.floordiv,
    "urem": operator.mod,
    "and": operator.and_,
    "or": operator.or_,
    "xor": operator.xor,
    "shl": operator.lshift,
    "ashr": operator.rshift,
}
FUNOPS = {
    "sdiv": "SDiv",
    "srem": "SMod",
    "lshr": "LShR",
    "rol": "RotateLeft",
    "ror": "RotateRight",
}
CMPFUN = {
    "ult": "ULT",
    "ule": "ULE",
    "ugt": "UGT",
    "uge": "UGE",
    "slt": "SLT",
    "sle": "SLE",
    "sgt": "SGT",
    "sge": "SGE",
}
CMPPY = {"ult": operator.lt, "ule": operator.le, "ugt": operator.gt, "uge": operator.ge}


def variant(op):
    return op.split("@", 1)[1] if "@" in op else None


def build(d):
    o = base(d[0])
    v = variant(d[0])
    if o == "bvs":
        return claripy.BVS(d[1], d[2], explicit_name=True)
    if o == "bvv":
        return claripy.BVV(d[1], d[2])
    if o == "bools":
        return claripy.BoolS(d[1], explicit_name=True)
    if o == "boolv":
        return claripy.BoolV(bool(d[1]))
    if o == "int":
        return int(d[1])
    if o == "pybool":
        return bool(d[1])
    if o == "b2bv":
        return build(d[1])
    if o in bvsem.BIN:
        a, b = build(d[1]), build(d[2])
        if v == "div" and o == "udiv":
            return operator.truediv(a, b)
        if v == "meth" and o in FUNOPS:  # bound method form x.SDiv(y), x.LShR(y)
            return getattr(a, FUNOPS[o])(b)
        if o in PYOPS:
            return PYOPS[o](a, b)
        return getattr(claripy, FUNOPS[o])(a, b)
    if o == "neg":
        return -build(d[1])
    if o == "inv":
        return ~build(d[1])
    if o == "reverse":
        a = build(d[1])
        return a.reversed if v == "prop" else claripy.Reverse(a)
    if o == "concat":
        parts = [build(a) for a in d[1:]]
        if v == "meth":
            return parts[0].concat(*parts[1:])
        return claripy.Concat(*parts)
    if o == "extract":
        a = build(d[3])
        if v == "slice":
            return a[d[1] : d[2]]
        if v == "index" and d[1] == d[2]:
            return a[d[1]]
        if v == "negslice":
            w = len(a)
            return a[d[1] - w : d[2] - w] if d[2] != 0 else a[d[1] - w : 0]
        if v == "openhi" and d[1] == len(a) - 1:
            return a[: d[2]]
        if v == "openlo" and d[2] == 0:
            return a[d[1] :]
        return claripy.Extract(d[1], d[2], a)
    if o == "zext":
        a = build(d[2])
        return a.zero_extend(d[1]) if v == "meth" else claripy.ZeroExt(d[1], a)
    if o == "sext":
        a = build(d[2])
        return a.sign_extend(d[1]) if v == "meth" else claripy.SignExt(d[1], a)
    if o in bvsem.CMP:
        a, b = build(d[1]), build(d[2])
        if o == "eq":
            return a == b
        if o == "ne":
            return a != b
        if v == "py" and o in CMPPY:
            return CMPPY[o](a, b)
        if v == "meth" and not isinstance(a, int):
            return getattr(a, CMPFUN[o])(b)
        return getattr(claripy, CMPFUN[o])(a, b)
    if o == "band":
        parts = [build(a) for a in d[1:]]
        if v == "py" and len(parts) == 2:
            return parts[0] & parts[1]
        return claripy.And(*parts)
    if o == "bor":
        parts = [build(a) for a in d[1:]]
        if v == "py" and len(parts) == 2:
            return parts[0] | parts[1]
        return claripy.Or(*parts)
    if o == "bnot":
        a = build(d[1])
        return ~a if v == "py" else claripy.Not(a)
    if o == "beq":
        return build(d[1]) == build(d[2])
    if o == "bne":
        return build(d[1]) != build(d[2])
    if o == "ite":
        return claripy.If(build(d[1]), build(d[2]), build(d[3]))
    raise ValueError(f"unknown op {d[0]}")


def well_formed(d):
    """Structural sanity of a generated descriptor (the generator's own contract):
    python operators need at least one AST operand, etc."""
    o = base(d[0])
    if o in bvsem.BIN or o in bvsem.CMP:
        if len(d) != 3:
            return False  # two operands exactly: a longer list would be silently cut by build() and the references
        kinds = [base(a[0]) for a in d[1:3]]
        if all(k in ("int", "b2bv") for k in kinds):
            return False
    for a in d[1:]:
        if isinstance(a, list) and not well_formed(a):
            return False
    return True
