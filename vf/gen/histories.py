"""Solver-history generators (pure Python, descriptors only).

A history is a list of steps; each step is a dict with "op" and the solver index "s" it is
applied to.  Constraint alphabets are built to reach every cache flag of the frontends: pinned
variables, small feasible sets (eval exhaustion), pairwise contradictions among the first few
constraints, concrete True/False, constraints that join and split variable groups."""
from __future__ import annotations

from vf.gen import exprgen as G

QUERY_OPS = ["satisfiable", "eval", "batch_eval", "min", "max", "solution", "is_true", "is_false"]


class Alphabet:
    def __init__(self, rng, w=None, nvars=None, nbools=None, allow_div=False):
        self.rng = rng
        self.w = w or rng.choice([3, 3, 4, 4, 5])
        self.nvars = nvars or rng.choice([2, 3, 3]) if self.w <= 4 else 2
        if self.w <= 6 and self.w * self.nvars > 12:
            self.nvars = max(1, 12 // self.w)
        self.nbools = (1 if rng.random() < 0.3 else 0) if nbools is None else nbools
        self.g = G.Gen(rng, nvars=self.nvars, widths=[self.w], surface=False, allow_div=allow_div, closed=True, nbools=self.nbools)
        self.vars = {f"{'abcd'[i]}{self.w}": ("bv", self.w) for i in range(self.nvars)}
        for i in range(self.nbools):
            self.vars["pqr"[i]] = ("bool",)

    def v(self, i=None):
        i = self.rng.randrange(self.nvars) if i is None else i
        return G.bvs("abcd"[i], self.w)

    def k(self):
        r, w = self.rng, self.w
        m = (1 << w) - 1
        return ["bvv", r.choice([0, 1, 2, m, m - 1, 1 << (w - 1), (1 << (w - 1)) - 1, r.getrandbits(w), r.getrandbits(w)]), w]

    def constraint(self):
        r = self.rng
        k = r.random()
        x, y = self.v(), self.v()
        if k < 0.16:
            return ["eq", x, self.k()]  # pin
        if k < 0.30:
            return [r.choice(["ule", "ult", "uge", "ugt", "sle", "slt", "sge", "sgt", "ne"]), x, self.k()]
        if k < 0.40:
            n = r.choice([2, 2, 3])
            return ["bor", *[["eq", x, self.k()] for _ in range(n)]]  # small feasible set
        if k < 0.55:
            o = r.choice(["add", "sub", "xor", "and", "or", "mul"])
            return [r.choice(["eq", "ule", "ne", "ugt", "slt"]), [o, x, y], self.k()]
        if k < 0.63:
            return [r.choice(["ult", "ule", "eq", "ne", "slt", "sge"]), x, y]
        if k < 0.70:
            return ["band", self.constraint(), self.constraint()]
        if k < 0.76:
            return ["bor", self.constraint(), self.constraint()]
        if k < 0.80:
            return ["bnot", self.constraint()]
        if k < 0.84:
            return ["boolv", r.random() < 0.75]
        if k < 0.88:
            # folds to a constant while building
            c1, c2 = self.k(), self.k()
            return [r.choice(["eq", "ule", "ne"]), c1, c2]
        if k < 0.92 and self.nbools:
            return r.choice([["bools", "p"], ["bnot", ["bools", "p"]], ["beq", ["bools", "p"], ["ult", x, self.k()]]])
        return self.g.boolx(r.choice([1, 2]))

    def expr(self):
        """mostly one of a few 'hot' expressions per history: the frontends' caches are keyed by expression"""
        if not hasattr(self, "hot"):
            self.hot = []
            self.hot = [self._expr() for _ in range(3)]
        if self.rng.random() < 0.65:
            return self.rng.choice(self.hot)
        return self._expr()

    def _expr(self):
        r = self.rng
        k = r.random()
        x, y = self.v(), self.v()
        if k < 0.35:
            return x
        if k < 0.45:
            return [r.choice(["add", "sub", "xor", "and", "or", "mul"]), x, y]
        if k < 0.55:
            return [r.choice(["add", "and", "xor", "lshr", "shl"]), x, self.k()]
        if k < 0.60:
            return ["ite", self.constraint(), x, y]
        if k < 0.65:
            return ["concat", x, y]
        if k < 0.70:
            return [r.choice(["zext", "sext"]), r.choice([1, 2, 4]), x]
        if k < 0.75:
            return ["extract", r.randrange(self.w - 1, self.w) if self.w > 1 else 0, 0, x] if self.w > 1 else x
        if k < 0.80:
            return [r.choice(["neg", "inv"]), x]
        if k < 0.84:
            return self.k()  # variable-free
        if k < 0.88:
            return ["bvs", f"fresh{self.w}", self.w]  # a variable the solver has never seen
        if k < 0.92:
            return ["add", x, ["bvs", f"fresh{self.w}", self.w]]
        return self.g.bv(self.w, r.choice([1, 2]))

    def extras(self, p=0.35):
        r = self.rng
        if r.random() > p:
            return []
        return [self.constraint() for _ in range(r.choice([1, 1, 2]))]


def query_step(al, rng, s=0, ops=None, p_extra=0.35):
    op = rng.choice(ops or QUERY_OPS)
    st = {"op": op, "s": s, "extra": al.extras(p_extra)}
    if op == "eval":
        st.update(e=al.expr(), n=rng.choice([1, 1, 2, 2, 3, 5, 20, 40]))
        if rng.random() < 0.1:
            st["e"] = al.constraint()  # Bool-sorted eval
    elif op == "batch_eval":
        st.update(es=[al.expr() for _ in range(rng.choice([1, 2, 2, 3]))], n=rng.choice([1, 2, 3, 5, 30]))
    elif op in ("min", "max"):
        st.update(e=al.expr(), signed=rng.random() < 0.5)
    elif op == "solution":
        e = al.expr()
        from vf.ref import bvsem

        st.update(e=e, v=rng.getrandbits(bvsem.width(e)))
        if rng.random() < 0.2:
            # the value as an expression (a variable, or a constant on the expression side and a variable as value)
            w_ = bvsem.width(e)
            if w_ == al.w:
                if rng.random() < 0.5:
                    st.update(v=al.v())
                else:
                    st.update(e=["bvv", rng.getrandbits(w_), w_], v=al.v())
    elif op in ("is_true", "is_false"):
        st.update(e=al.constraint())
    return st


def history(rng, length=None, al=None, p_branch=0.0, maint=True, p_extra=0.35, ops=None):
    al = al or Alphabet(rng)
    length = length or rng.choice([6, 10, 15, 25, 40])
    steps = []
    nsolvers = 1
    for _ in range(length):
        s = rng.randrange(nsolvers)
        k = rng.random()
        if k < 0.30:
            steps.append({"op": "add", "s": s, "cons": [al.constraint() for _ in range(rng.choice([1, 1, 1, 2, 3]))]})
        elif k < 0.30 + p_branch and nsolvers < 6:
            steps.append({"op": "branch", "s": s})
            nsolvers += 1
        elif maint and k < 0.36 + p_branch:
            steps.append({"op": rng.choice(["simplify", "downsize", "simplify"]), "s": s})
        else:
            steps.append(query_step(al, rng, s, ops=ops, p_extra=p_extra))
    if maint and rng.random() < 0.35:
        # query patterns whose answers tempt a cache: every expression enumerated on its own, then together; an
        # optimum asked twice and in the other signedness; the same eval with and without an extra constraint
        x, y = al.v(0), al.v(1 % al.nvars)
        s = rng.randrange(nsolvers)
        pat = rng.choice([
            [{"op": "eval", "s": s, "e": x, "n": 70, "extra": []}, {"op": "eval", "s": s, "e": y, "n": 70, "extra": []}, {"op": "batch_eval", "s": s, "es": [x, y], "n": 300, "extra": []}, {"op": "batch_eval", "s": s, "es": [y, x, ["add", x, y]], "n": 300, "extra": []}],
            [{"op": "max", "s": s, "e": x, "signed": False, "extra": []}, {"op": "max", "s": s, "e": x, "signed": True, "extra": []}, {"op": "min", "s": s, "e": x, "signed": True, "extra": []}, {"op": "max", "s": s, "e": x, "signed": False, "extra": al.extras(1.0)}, {"op": "max", "s": s, "e": x, "signed": False, "extra": []}],
            [{"op": "eval", "s": s, "e": x, "n": 70, "extra": al.extras(1.0)}, {"op": "eval", "s": s, "e": x, "n": 70, "extra": []}, {"op": "solution", "s": s, "e": x, "v": rng.getrandbits(al.w), "extra": []}, {"op": "satisfiable", "s": s, "extra": []}],
            [{"op": "satisfiable", "s": s, "extra": []}, {"op": "add", "s": s, "cons": [al.constraint(), al.constraint()]}, {"op": "satisfiable", "s": s, "extra": []}, {"op": "add", "s": s, "cons": [al.constraint() for _ in range(5)]}, {"op": "satisfiable", "s": s, "extra": []}, {"op": "eval", "s": s, "e": x, "n": 70, "extra": []}],
        ])
        pos = rng.randrange(0, len(steps) + 1)
        steps[pos:pos] = pat
    if maint and rng.random() < 0.3:
        # an optimum found on a solver, a copy of the solver, the optimum in the other signedness (and the other
        # direction) asked on the copy and then on the original
        s = rng.randrange(nsolvers)
        x = rng.choice([al.v(0), al.expr()])
        op1 = rng.choice(["max", "min"])
        sg = rng.random() < 0.5
        other = "min" if op1 == "max" else "max"
        steps += [
            {"op": op1, "s": s, "e": x, "signed": sg, "extra": []},
            {"op": "branch", "s": s},
            {"op": op1, "s": nsolvers, "e": x, "signed": not sg, "extra": []},
            {"op": other, "s": nsolvers, "e": x, "signed": sg, "extra": []},
            {"op": op1, "s": nsolvers, "e": x, "signed": sg, "extra": []},
            {"op": op1, "s": s, "e": x, "signed": not sg, "extra": []},
        ]
    return al, steps


def exhaustive_short(al, rng, maxlen):
    """All step sequences of length <= maxlen over a 10-step alphabet built around one constraint set."""
    import itertools

    x = al.v(0)
    y = al.v(1 % al.nvars)
    c1, c2 = al.k(), al.k()
    base = [
        {"op": "add", "s": 0, "cons": [["bor", ["eq", x, c1], ["eq", x, c2]]]},
        {"op": "add", "s": 0, "cons": [["ne", x, c1]]},
        {"op": "add", "s": 0, "cons": [["ult", x, y]]},
        {"op": "eval", "s": 0, "e": x, "n": 3, "extra": []},
        {"op": "eval", "s": 0, "e": x, "n": 3, "extra": [["ne", x, c2]]},
        {"op": "max", "s": 0, "e": x, "signed": False, "extra": []},
        {"op": "min", "s": 0, "e": x, "signed": True, "extra": []},
        {"op": "solution", "s": 0, "e": x, "v": c1[1], "extra": []},
        {"op": "satisfiable", "s": 0, "extra": [["eq", x, c1]]},
        {"op": "simplify", "s": 0},
    ]
    for n in range(1, maxlen + 1):
        for combo in itertools.product(range(len(base)), repeat=n):
            if not any(base[i]["op"] == "add" for i in combo):
                continue
            yield [dict(base[i]) for i in combo] + [
                {"op": "eval", "s": 0, "e": x, "n": 10, "extra": []},
                {"op": "max", "s": 0, "e": x, "signed": True, "extra": []},
                {"op": "min", "s": 0, "e": y, "signed": False, "extra": []},
            ]
