"""M-new: monitor on Base.__new__ / Base.make_like, and structural grouping of the live table.

Installed from the harness by attribute replacement (no edit to /repo)."""
from __future__ import annotations

import math

_installed = False
events = {"new": 0, "make_like": 0, "fast_path": 0, "folded": 0, "cache_hit": 0}
problems: list[dict] = []
MAXP = 50


def akey(a):
    """content key of an annotation / literal: type-sensitive, NaN/-0.0 aware, never uses hash()/__eq__"""
    import claripy

    if isinstance(a, claripy.ast.Base):
        return ("ast", id(a))
    if isinstance(a, bool):
        return ("bool", a)
    if isinstance(a, int):
        return ("int", a)
    if isinstance(a, float):
        if math.isnan(a):
            return ("float", "nan")
        return ("float", a.hex())
    if isinstance(a, str):
        return ("str", a)
    if isinstance(a, bytes):
        return ("bytes", a)
    if a is None:
        return ("none",)
    if isinstance(a, tuple):
        return ("tuple", tuple(akey(x) for x in a))
    if isinstance(a, list):
        return ("list", tuple(akey(x) for x in a))
    if isinstance(a, (set, frozenset)):
        return ("set", tuple(sorted((akey(x) for x in a), key=repr)))
    if isinstance(a, dict):
        return ("dict", tuple(sorted(((akey(k), akey(v)) for k, v in a.items()), key=repr)))
    if isinstance(a, claripy.annotation.Annotation):
        d = getattr(a, "__dict__", {})
        ident = ("id", id(a)) if type(a).__eq__ is object.__eq__ else ()
        return ("anno", type(a).__module__, type(a).__qualname__, tuple(sorted((k, akey(v)) for k, v in d.items())), ident)
    if isinstance(a, claripy.fp.FSort):
        return ("fsort", a.exp, a.mantissa)
    if isinstance(a, claripy.fp.RM):
        return ("rm", a.value)
    return ("obj", type(a).__qualname__, repr(a))


def ckey(a):
    """content-only key of an annotation (no object identity)"""
    k = akey(a)
    return k[:4] if k and k[0] == "anno" else k


def same_anno(a, q):
    """a returned annotation stands for requested q: same object, equal by the class's own ==, or same contents"""
    if a is q:
        return True
    try:
        if a == q and ckey(a)[:3] == ckey(q)[:3]:
            return True
    except Exception:  # noqa: BLE001
        pass
    return ckey(a) == ckey(q)


def annos_match(returned, requested):
    return all(any(same_anno(a, q) for a in returned) for q in requested) and all(any(same_anno(a, q) for q in requested) for a in returned)


def annos_key(annos):
    return tuple(sorted((akey(a) for a in annos), key=repr))


def skey(x):
    """structural key of a live AST"""
    # annotations as an ordered tuple: two tuples that differ in order are not "identical annotations"
    return (type(x).__name__, x.op, tuple(akey(a) for a in x.args), x.length, tuple(akey(a) for a in x.annotations))


def _args_match(req, got):
    import claripy

    if len(req) != len(got):
        return False
    for a, b in zip(req, got):
        if isinstance(a, claripy.ast.Base) or isinstance(b, claripy.ast.Base):
            if a is not b:
                return False
        elif akey(a) != akey(b):
            return False
    return True


def _report(p):
    if len(problems) < MAXP:
        problems.append(p)


def install():
    global _installed
    if _installed:
        return
    _installed = True
    import claripy
    from claripy import operations
    from claripy.ast.base import Base

    orig_new = Base.__new__
    orig_make_like = Base.make_like

    def mon_new(cls, op, args, add_variables=None, hash=None, symbolic=None, variables=None, errored=None, annotations=(), skip_child_annotations=False, length=None, encoded_name=None):
        r = orig_new(cls, op, args, add_variables=add_variables, hash=hash, symbolic=symbolic, variables=variables, errored=errored, annotations=annotations, skip_child_annotations=skip_child_annotations, length=length, encoded_name=encoded_name)
        events["new"] += 1
        try:
            a_args = args if type(args) is tuple else tuple(args)
            if hash is not None and r._hash == hash and not _args_match(a_args, r.args):
                # unpickling path: the object found under the pickled hash must be the pickled one
                pass
            want_annos = list(annotations)
            if not skip_child_annotations:
                for a in a_args:
                    if isinstance(a, Base):
                        want_annos += list(a._relocatable_annotations)
            if r.op == op and type(r) is cls:
                if not _args_match(a_args, r.args):
                    _report({"what": "merged-different-args", "requested": [op, repr(a_args)[:200], length], "returned": repr(r)[:200]})
                elif r.length != length:
                    _report({"what": "merged-different-length", "requested": [op, repr(a_args)[:200], length], "returned": [repr(r)[:200], r.length]})
                elif not annos_match(r.annotations, want_annos):
                    _report({"what": "merged-different-annotations", "requested": [op, repr(a_args)[:200], sorted(map(repr, want_annos))], "returned": [repr(r)[:200], sorted(repr(a) for a in r.annotations)]})
            else:
                # a different op may only come back from eager folding of a variable-free tree
                events["folded"] += 1
                sym = symbolic if symbolic is not None else any(a.symbolic for a in a_args if isinstance(a, Base))
                if sym or op in operations.leaf_operations:
                    _report({"what": "returned-different-op", "requested": [op, repr(a_args)[:200], length], "returned": repr(r)[:200]})
        except Exception as e:  # noqa: BLE001
            _report({"what": "monitor-exception", "observed": repr(e)})
        return r

    def mon_make_like(self, op, args, simplify=False, annotations=None, variables=None, symbolic=None, skip_child_annotations=False, length=None):
        a_args = args if type(args) is tuple else tuple(args)
        r = orig_make_like(self, op, a_args, simplify=simplify, annotations=annotations, variables=variables, symbolic=symbolic, skip_child_annotations=skip_child_annotations, length=length)
        events["make_like"] += 1
        try:
            fast = annotations and variables is None and symbolic is None and skip_child_annotations and length is not None and not simplify
            if fast:
                events["fast_path"] += 1
                if r.op != op or not _args_match(a_args, r.args) or r.length != length or not annos_match(r.annotations, annotations):
                    _report({"what": "make_like-fast-path-merged", "requested": [op, repr(a_args)[:200], length, repr(annotations)[:200]], "returned": [repr(r)[:200], r.length, repr(r.annotations)[:200]]})
        except Exception as e:  # noqa: BLE001
            _report({"what": "monitor-exception", "observed": repr(e)})
        return r

    Base.__new__ = mon_new
    Base.make_like = mon_make_like
    # Bits.make_like calls Base.make_like by name at call time: covered by the class attribute


def scan_table(res, label=""):
    """Group every live AST by structural key: two objects in one group = identity violated."""
    import gc

    from claripy.ast.base import Base

    gc.collect()
    live = list(Base._hash_cache.values())
    groups = {}
    for x in live:
        try:
            k = skey(x)
        except Exception:  # noqa: BLE001
            continue
        groups.setdefault(k, []).append(x)
    res.count("table_scans")
    res.count("live_asts_scanned", len(live))
    bad = [(k, v) for k, v in groups.items() if len(v) > 1]
    for k, v in bad[:10]:
        res.violation({"kind": "hashcons", "what": "two-live-objects-structurally-equal", "where": label, "node": repr(v[0])[:200], "hashes": [x._hash for x in v[:4]], "annotations": [repr(x.annotations) for x in v[:2]]})
    # the table's own key must be each object's hash
    for h, x in list(Base._hash_cache.items())[:200000]:
        if x._hash != h:
            res.violation({"kind": "hashcons", "what": "table-key-differs-from-object-hash", "node": repr(x)[:200]})
            break
    return len(live)
