"""M-api: run a history against real solver objects, recording call/return of every public
method at the client boundary, and judge each answer against the stateless reference solver."""
from __future__ import annotations

import traceback

import claripy

from vf.gen import build as bvb
from vf.ref import bvsem, refsolver


class Live:
    """one live solver object + the constraint descriptors that were added to it (the reference's input)"""

    def __init__(self, solver, cons=None, label=""):
        self.solver = solver
        self.cons = list(cons or [])
        self.added_asts = []  # every constraint object handed to add() (C16 membership)
        self.tainted = False
        self.poisoned = False  # holds a constraint the backend cannot translate: answers are judged for soundness only
        self.label = label


class Run:
    def __init__(self, res, uni_vars, make_solver, pid, mode="exact", cfg=None, keep=None, qkw=None, annotate=None, ref_cons=None):
        self.res = res
        self.uni = refsolver.Universe(uni_vars)
        self.pid = pid
        self.mode = mode  # "exact" | "approx"
        self.cfg = cfg or {}
        self.qkw = dict(qkw or {})  # extra keyword arguments for every query (e.g. exact=False)
        self.annotate = annotate  # optional AST -> AST applied to everything that is built (SI annotations)
        self.ref_cons = list(ref_cons or [])  # constraints only the reference knows (declared variable ranges)
        self.live = [Live(make_solver(), label="s0")]
        self.log = []  # (clock, solver index, op, outcome summary)
        self.full_log = []  # (step, complete outcome) - for offline judging (C20)
        self.keep = keep if keep is not None else []
        self.clock = 0
        self.failed = False

    # ------------------------------------------------------------------ helpers
    def b(self, d):
        a = bvb.build(d)
        if self.annotate is not None and isinstance(a, claripy.ast.Base):
            a = self.annotate(a)
        self.keep.append(a)
        return a

    def ans(self, lv, extra):
        return refsolver.Answer(self.uni, self.ref_cons + lv.cons + list(extra))

    def viol(self, step, what, **kw):
        self.failed = True
        hist = [e for e in self.log]
        self.res.violation({"kind": "history", "what": what, "mon": "M-api", "step": _brief(step), "history": hist[-40:], "config": self.cfg, **kw})

    # ------------------------------------------------------------------ one step
    def step(self, st):
        self.clock += 1
        lv = self.live[st["s"]]
        s = lv.solver
        op = st["op"]
        extra_d = st.get("extra", [])
        try:
            extra = tuple(self.b(c) for c in extra_d)
        except claripy.errors.ClaripyZeroDivisionError:
            self.res.count("skipped_build_div0")
            return
        try:
            for key in ("e",):
                if key in st:
                    self.b(st[key])
            for e in st.get("es", []):
                self.b(e)
        except claripy.errors.ClaripyZeroDivisionError:
            self.res.count("skipped_build_div0")
            return
        self.res.count("op:" + op)
        if extra_d:
            self.res.count("with_extra")
        outcome = None
        try:
            if op == "add":
                try:
                    asts = [self.b(c) for c in st["cons"]]
                except claripy.errors.ClaripyZeroDivisionError:
                    self.res.count("skipped_build_div0")
                    return
                for i_ in st.get("ann", []):
                    # (some constraints of the batch carry a user's annotation: the same condition, another object)
                    if i_ < len(asts) and isinstance(asts[i_], claripy.ast.Base):
                        from vf.gen import astwork

                        asts[i_] = asts[i_].annotate(astwork.NE("c"))
                lv.added_asts += [a for a in asts if isinstance(a, claripy.ast.Base)]
                s.add(asts)
                lv.cons += st["cons"]
                outcome = ("ok", None)
            elif op == "add_untranslatable":
                # a constraint over a variable of its own that the Z3 backend has no translation for (an abstract-domain
                # operator / a string predicate the backend does not implement): whatever the solver does with it, later
                # answers must not contradict the constraints it does understand
                pz = claripy.BVS("poison8", 8, explicit_name=True)
                if st.get("how") == "strisdigit":
                    bad = claripy.StrIsDigit(claripy.StringS("poisonstr", 4, explicit_name=True))
                else:
                    bad = pz.union(claripy.BVV(1, 8)) == 1
                self.keep.append(bad)
                lv.poisoned = True
                s.add([bad])
                outcome = ("ok", None)
            elif op == "satisfiable":
                outcome = ("ok", s.satisfiable(extra_constraints=extra, **self.qkw))
            elif op == "eval":
                outcome = ("ok", tuple(s.eval(self.b(st["e"]), st["n"], extra_constraints=extra, **self.qkw)))
            elif op == "batch_eval":
                outcome = ("ok", [tuple(t) for t in s.batch_eval([self.b(e) for e in st["es"]], st["n"], extra_constraints=extra, **self.qkw)])
            elif op in ("min", "max"):
                outcome = ("ok", getattr(s, op)(self.b(st["e"]), extra_constraints=extra, signed=st["signed"], **self.qkw))
            elif op == "solution":
                v_ = self.b(st["v"]) if isinstance(st["v"], list) else st["v"]  # (the value may be an expression too)
                outcome = ("ok", s.solution(self.b(st["e"]), v_, extra_constraints=extra, **self.qkw))
            elif op in ("is_true", "is_false"):
                outcome = ("ok", getattr(s, op)(self.b(st["e"]), extra_constraints=extra, **self.qkw))
            elif op == "simplify":
                s.simplify()
                outcome = ("ok", None)
            elif op == "downsize":
                s.downsize()
                outcome = ("ok", None)
            elif op == "pickle":
                # the solver goes on as its own pickled-and-restored copy (what angr does when it stores a state)
                import pickle

                lv.solver = pickle.loads(pickle.dumps(s, -1))
                outcome = ("ok", None)
            elif op == "branch":
                nb = s.branch()
                self.live.append(Live(nb, lv.cons, label=f"s{len(self.live)}"))
                self.live[-1].added_asts = list(lv.added_asts)
                self.live[-1].tainted = lv.tainted  # a copy of a state the reference does not know is not known either
                self.live[-1].poisoned = lv.poisoned
                outcome = ("ok", None)
            elif op == "split":
                parts = s.split()
                self.keep.append(parts)
                self.last_split = (lv, parts)
                outcome = ("ok", len(parts))
            elif op == "combine":
                others = [self.live[j] for j in st["others"] if j < len(self.live) and j != st["s"]]
                nb = s.combine([o.solver for o in others])
                cons = list(lv.cons)
                for o in others:
                    cons += o.cons
                self.live.append(Live(nb, cons, label=f"s{len(self.live)}"))
                self.live[-1].tainted = lv.tainted or any(o.tainted for o in others)
                outcome = ("ok", None)
            elif op == "merge":
                others = [self.live[j] for j in st["others"] if j < len(self.live) and j != st["s"]]
                group = [lv, *others]
                conds_d = st["conds"][: len(group)]
                while len(conds_d) < len(group):
                    conds_d.append(["boolv", True])
                conds = [self.b(c) for c in conds_d]
                anc = self.live[st["anc"]] if st.get("anc") is not None and st["anc"] < len(self.live) else None
                if anc is not None:
                    flag, nb = s.merge([o.solver for o in others], conds, common_ancestor=anc.solver)
                    cons = list(anc.cons) + [["bor", *conds_d] if len(conds_d) > 1 else conds_d[0]]
                else:
                    flag, nb = s.merge([o.solver for o in others], conds)
                    opts = [["band", c, *g.cons] if g.cons else c for c, g in zip(conds_d, group)]
                    cons = [["bor", *opts] if len(opts) > 1 else opts[0]]
                self.live.append(Live(nb, cons, label=f"s{len(self.live)}"))
                self.live[-1].tainted = any(g.tainted for g in group) or (anc is not None and anc.tainted)
                outcome = ("ok", None)
            else:
                raise ValueError(op)
        except claripy.errors.UnsatError as e:
            outcome = ("unsat-error", repr(e)[:80])
        except (claripy.errors.ClaripyZ3Error, claripy.errors.ClaripySolverInterruptError) as e:
            if self.cfg.get("fault_injected"):
                outcome = ("gave-up", repr(e)[:120])
            else:
                outcome = ("raise", repr(e)[:200], traceback.format_exc()[-1200:])
        except claripy.errors.ClaripyZeroDivisionError as e:
            outcome = ("raise", repr(e)[:120])
        except claripy.errors.ClaripyError as e:
            outcome = ("raise", repr(e)[:200], traceback.format_exc()[-1200:])
        except Exception as e:  # noqa: BLE001
            outcome = ("raise-other", repr(e)[:200], traceback.format_exc()[-1500:])
        self.log.append([self.clock, st["s"], _brief(st), _short(outcome)])
        self.full_log.append((st, outcome))
        if op == "add" and outcome[0] != "ok":
            # the call may have taken partial effect (e.g. one of a hybrid's two frontends): what this solver holds is
            # no longer known to the reference
            lv.tainted = True
        self.judge(st, lv, outcome)

    def judge_sound_only(self, st, outcome, a, sat):
        """the solver holds a constraint nobody can translate: an error is the expected answer; an answer that is given
        must still be possible under the constraints that are understood (a is the reference over those)"""
        res = self.res
        op = st["op"]
        kind = outcome[0]
        res.count("poisoned_answers_judged")
        if kind == "raise":
            res.count("poisoned_query_raised_claripy_error")
            return
        if kind == "raise-other":
            self.viol(st, "query-raised-non-claripy-exception", observed=list(outcome))
            return
        if kind == "unsat-error":
            res.count("poisoned_unsat_error")
            return
        val = outcome[1]
        res.count("poisoned_query_answered")

        def symbolic(e):
            return bool(bvsem.variables(e)) and self.b(e).symbolic

        if op == "satisfiable":
            if val is True and not sat:
                self.viol(st, "satisfiable-true-although-understood-constraints-unsat", observed=val)
        elif op == "eval":
            e = st["e"]
            if not symbolic(e):
                return
            if not sat:
                if len(val):
                    self.viol(st, "eval-returned-values-on-unsat", observed=list(val))
                return
            a = a._with([e])
            if a.models is not None:
                feas = a.values(e)
                bad = [v for v in val if v not in feas]
                if bad:
                    self.viol(st, "eval-infeasible-value", observed=list(val), infeasible=bad, feasible=sorted(feas)[:40], note="solver holds an untranslatable constraint")
        elif op == "batch_eval":
            es = st["es"]
            if not all(symbolic(e) for e in es):
                return
            if not sat:
                if len(val):
                    self.viol(st, "batch_eval-returned-values-on-unsat", observed=val)
                return
            a = a._with(es)
            if a.models is not None:
                feas = a.tuples(es)
                bad = [t for t in val if tuple(t) not in feas]
                if bad:
                    self.viol(st, "batch_eval-infeasible-tuple", observed=val, infeasible=bad, note="solver holds an untranslatable constraint")
        elif op in ("min", "max"):
            e = st["e"]
            if not symbolic(e):
                return
            if not sat:
                self.viol(st, f"{op}-returned-value-on-unsat", observed=val)
                return
            a = a._with([e])
            if a.models is not None and isinstance(val, int):
                w = bvsem.width(e)
                if (val & ((1 << w) - 1)) not in a.values(e):
                    self.viol(st, f"{op}-infeasible-value", observed=val, feasible=sorted(a.values(e))[:40], note="solver holds an untranslatable constraint")
        elif op == "solution" and not isinstance(st["v"], list):
            e = st["e"]
            if val is True and symbolic(e):
                if not sat or a.feasible(e, st["v"]) is False:
                    self.viol(st, "solution-true-for-infeasible-value", observed=val)

    # ------------------------------------------------------------------ oracle
    def judge(self, st, lv, outcome):
        op = st["op"]
        extra_d = st.get("extra", [])
        res = self.res
        if op == "add_untranslatable":
            res.count("untranslatable_adds:" + outcome[0])
            return
        if lv.poisoned and op in ("add", "simplify", "downsize", "branch", "pickle"):
            if outcome[0] == "raise-other":
                self.viol(st, f"{op}-raised", observed=list(outcome))
            return
        if op in ("add", "simplify", "downsize", "branch", "split", "combine", "merge", "pickle"):
            if outcome[0] != "ok":
                if self.mode == "none":
                    res.count(f"{op}_raised_not_judged_here")
                    res.setadd("maintenance_exceptions_not_judged_here", str(outcome[1])[:120])
                else:
                    self.viol(st, f"{op}-raised", observed=list(outcome))
            return
        if self.mode == "none":
            return
        if lv.tainted:
            # what this solver holds is not known to the reference (an add() raised half-way, or the harness changed it
            # behind the reference's back on purpose): its answers are not judged, only compared by probes
            res.count("not_judged_state_unknown")
            return
        res.count("answers_judged")
        a = self.ans(lv, extra_d)
        sat = a.sat()
        if sat is None:
            res.count("oracle_unknown")
            return
        res.count("ref_sat" if sat else "ref_unsat")
        kind = outcome[0]
        if lv.poisoned:
            self.judge_sound_only(st, outcome, a, sat)
            return
        if kind in ("raise", "raise-other"):
            if self.mode == "approx":
                # an approximate frontend that declines to answer excludes nothing; counted, not judged
                res.count("approx_query_raised")
                res.setadd("approx_query_raised", f"{op}:{str(outcome[1])[:100]}")
                return
            self.viol(st, "query-raised", observed=list(outcome), ref_sat=sat)
            return
        if kind == "unsat-error":
            res.count("unsat_errors")
            if sat:
                self.viol(st, "UnsatError-on-satisfiable", observed=outcome[1], ref_models=len(a.models) if a.models is not None else None)
            return
        val = outcome[1]
        exact = self.mode == "exact"
        if op == "satisfiable":
            if val is not True and val is not False:
                self.viol(st, "satisfiable-not-bool", observed=repr(val))
            elif exact and val != sat:
                self.viol(st, "satisfiable-wrong", observed=val, expected=sat)
            elif not exact and sat and not val:
                self.viol(st, "approx-satisfiable-false-on-sat", observed=val, expected=sat)
            return
        if op == "eval":
            e, n = st["e"], st["n"]
            is_b = bvsem.is_bool(e)
            novars = not bvsem.variables(e) or not self.b(e).symbolic
            if not sat:
                if novars:
                    res.count("varfree_on_unsat_not_judged")
                    return
                if len(val) == 0:
                    res.count("empty_on_unsat")
                    return
                if exact:
                    self.viol(st, "eval-returned-values-on-unsat", observed=list(val))
                return
            a = a._with([e])
            feas = a.values(e)
            for v in val:
                if (is_b and not isinstance(v, bool)) or (not is_b and (isinstance(v, bool) or not isinstance(v, int) or not 0 <= v < (1 << bvsem.width(e)))):
                    self.viol(st, "eval-value-type", observed=repr(v))
                    return
            if len(set(val)) != len(val):
                self.viol(st, "eval-duplicates", observed=list(val))
                return
            if exact:
                bad = [v for v in val if v not in feas]
                if bad and a.models is not None:
                    self.viol(st, "eval-infeasible-value", observed=list(val), infeasible=bad, feasible=sorted(feas)[:40])
                    return
                if a.models is not None and len(val) != min(n, len(feas)):
                    self.viol(st, "eval-wrong-count", observed=list(val), expected_count=min(n, len(feas)), feasible=sorted(feas)[:40])
                    return
                if a.models is None and bad:
                    # large universes: check each returned value individually
                    for v in val:
                        if a.feasible(e, v) is False:
                            self.viol(st, "eval-infeasible-value", observed=list(val), infeasible=[v])
                            return
            else:
                # approximate: fewer than n values returned => it claims these are all; every feasible value must be there
                if a.models is not None and len(val) < n and not set(feas) <= set(val):
                    self.viol(st, "approx-eval-missing-feasible-value", observed=list(val), missing=sorted(set(feas) - set(val))[:20])
            return
        if op == "batch_eval":
            es, n = st["es"], st["n"]
            if not sat:
                if len(val) == 0:
                    res.count("empty_on_unsat")
                elif all(not bvsem.variables(e) or not self.b(e).symbolic for e in es):
                    res.count("varfree_on_unsat_not_judged")
                elif exact:
                    self.viol(st, "batch_eval-returned-values-on-unsat", observed=val)
                return
            if not exact:
                return
            if len(set(val)) != len(val):
                self.viol(st, "batch_eval-duplicates", observed=val)
                return
            a = a._with(es)
            if a.models is not None:
                feas = a.tuples(es)
                bad = [t for t in val if tuple(t) not in feas]
                if bad:
                    self.viol(st, "batch_eval-infeasible-tuple", observed=val, infeasible=bad, feasible=sorted(feas)[:30])
                elif len(val) != min(n, len(feas)):
                    self.viol(st, "batch_eval-wrong-count", observed=val, expected_count=min(n, len(feas)))
            else:
                for t in val:
                    if a.feasible_tuple(es, t) is False:
                        self.viol(st, "batch_eval-infeasible-tuple", observed=val, infeasible=[t])
                        return
            return
        if op in ("min", "max"):
            e = st["e"]
            if not sat:
                if not bvsem.variables(e) or not self.b(e).symbolic:
                    res.count("varfree_on_unsat_not_judged")
                    return
                if exact:
                    self.viol(st, f"{op}-returned-value-on-unsat", observed=val)
                return
            w = bvsem.width(e)
            want = a.optimum(e, op == "max", st["signed"])
            if want is None:
                res.count("oracle_unknown")
                return
            if not isinstance(val, int) or isinstance(val, bool):
                self.viol(st, f"{op}-value-type", observed=repr(val))
                return
            got = val & ((1 << w) - 1)
            if exact:
                if got != want:
                    self.viol(st, f"{op}-wrong", observed=val, expected=want, signed=st["signed"], width=w)
            else:
                key = (lambda v: bvsem.signed(v, w)) if st["signed"] else (lambda v: v)
                if (op == "max" and key(got) < key(want)) or (op == "min" and key(got) > key(want)):
                    self.viol(st, f"approx-{op}-excludes-optimum", observed=val, expected=want, signed=st["signed"])
            return
        if op == "solution" and isinstance(st["v"], list):
            # the value is an expression: feasible iff the constraints allow e == v
            eqd = ["eq", st["e"], st["v"]]
            if not bvsem.variables(eqd):
                res.count("varfree_on_unsat_not_judged")
                return
            want = self.ans(lv, list(extra_d) + [eqd]).sat()
            if want is None:
                return
            res.count("solution_with_expression_value_judged")
            if exact and val != want:
                self.viol(st, "solution-wrong", observed=val, expected=want, value_is_expression=True)
            elif not exact and want and not val:
                self.viol(st, "approx-solution-false-for-feasible", observed=val)
            return
        if op == "solution":
            if not sat:
                if not bvsem.variables(st["e"]) or not self.b(st["e"]).symbolic:
                    res.count("varfree_on_unsat_not_judged")
                    return
                if val is True and exact:
                    self.viol(st, "solution-true-on-unsat", observed=val)
                return
            want = a.feasible(st["e"], st["v"] & ((1 << bvsem.width(st["e"])) - 1))
            if want is None:
                return
            if exact and val != want:
                self.viol(st, "solution-wrong", observed=val, expected=want)
            elif not exact and want and not val:
                self.viol(st, "approx-solution-false-for-feasible", observed=val)
            return
        if op in ("is_true", "is_false"):
            if val is True:
                res.count("truth_claims")
                e = st["e"] if op == "is_true" else ["bnot", st["e"]]
                ok = a.valid(e)
                if ok is False:
                    self.viol(st, f"{op}-claimed-but-countermodel", observed=val)
            elif val is not False:
                self.viol(st, f"{op}-not-bool", observed=repr(val))
            return


def judge_log(res, uni_vars, full_log, pid, cfg, mode="exact"):
    """Offline oracle: judge a recorded (step, outcome) list against the reference, without touching a solver."""
    run = Run(res, uni_vars, lambda: None, pid, mode=mode, cfg=cfg)
    for st, outcome in full_log:
        if st["s"] >= len(run.live):
            continue
        lv = run.live[st["s"]]
        run.clock += 1
        run.log.append([run.clock, st["s"], _brief(st), _short(outcome)])
        if outcome is None:
            continue
        if st["op"] == "add" and outcome[0] == "ok":
            lv.cons += st["cons"]
        elif st["op"] == "add":
            lv.tainted = True
        elif st["op"] == "branch" and outcome[0] == "ok":
            run.live.append(Live(None, lv.cons, label=f"s{len(run.live)}"))
        run.judge(st, lv, outcome)
        if run.failed:
            break
    return run


def _brief(st):
    d = {k: v for k, v in st.items()}
    return d


def _short(outcome):
    if outcome is None:
        return None
    o = list(outcome[:2])
    if isinstance(o[1], (list, tuple)) and len(o[1]) > 12:
        o[1] = list(o[1][:12]) + ["..."]
    return o


def cache_state(s):
    """a coarse fingerprint of a frontend's cache state (evidence: distinct cache states visited)"""
    parts = []
    for attr in ("_models", "_eval_exhausted", "_max_exhausted", "_min_exhausted", "_max_signed_exhausted", "_min_signed_exhausted"):
        v = getattr(s, attr, None)
        if v is not None:
            parts.append(min(len(v), 3))
    parts.append(getattr(s, "_cached_satness", "-"))
    parts.append(getattr(s, "_exhausted", "-"))
    parts.append(getattr(s, "_simplified", "-"))
    parts.append(min(len(getattr(s, "_to_add", []) or []), 2))
    return tuple(parts)


def probe(solver, exprs, bools, build, qkw=None):
    """A fixed set of questions whose answers are functions of the solver's model set only (complete
    enumerations, optima, satisfiability); used to compare a solver with itself before/after something else ran."""
    out = []
    qkw = qkw or {}
    for e in exprs:
        a = build(e)
        for name, fn in (
            ("max-u", lambda: solver.max(a, **qkw)),
            ("min-u", lambda: solver.min(a, **qkw)),
            ("max-s", lambda: solver.max(a, signed=True, **qkw) & ((1 << len(a)) - 1)),
            ("min-s", lambda: solver.min(a, signed=True, **qkw) & ((1 << len(a)) - 1)),
            ("all", lambda: _complete(solver.eval(a, 70, **qkw), 70)),
        ):
            try:
                out.append((name, fn()))
            except claripy.errors.UnsatError:
                out.append((name, "unsat"))
            except Exception as ex:  # noqa: BLE001  (a crash is an answer too: it must not change either)
                out.append((name, "raised:" + type(ex).__name__))
    try:
        out.append(("sat", solver.satisfiable(**qkw)))
    except Exception as ex:  # noqa: BLE001
        out.append(("sat", "raised:" + type(ex).__name__))
    for c in bools:
        try:
            out.append(("sat+", solver.satisfiable(extra_constraints=(build(c),), **qkw)))
        except Exception as ex:  # noqa: BLE001
            out.append(("sat+", "raised:" + type(ex).__name__))
    return out


def _complete(vals, n):
    vals = tuple(vals)
    return sorted(set(vals)) if len(vals) < n else "at-least-%d" % n
