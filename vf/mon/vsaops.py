"""Strided-interval operation table: how each transfer function of the real StridedInterval class is invoked
(through the same Python operators the VSA backend uses), and the concrete operation it abstracts."""
from __future__ import annotations

from vf.ref import bvsem
from vf.ref import sigamma as G


def mk(t):
    """build the real object from a tuple (bits, stride, lb, ub, empty, reversed)"""
    from claripy.backends.backend_vsa import StridedInterval

    bits, stride, lb, ub, empty, rev = t
    if empty:
        return StridedInterval.empty(bits)
    si = StridedInterval(bits=bits, stride=stride, lower_bound=lb, upper_bound=ub)
    if rev:
        si = si.reverse()
    return si


def tup(si):
    return G.si_tuple(si)


# ---------------------------------------------------------------- binary, same width -> bit-vector
def _sdiv(a, b, w):
    return bvsem.bvop("sdiv", a, b, w)


BIN = {
    # name: (invoke(A, B), concrete(a, b, w), exempt(a, b, w))
    "add": (lambda A, B: A + B, lambda a, b, w: bvsem.bvop("add", a, b, w), None),
    "sub": (lambda A, B: A - B, lambda a, b, w: bvsem.bvop("sub", a, b, w), None),
    "mul": (lambda A, B: A * B, lambda a, b, w: bvsem.bvop("mul", a, b, w), None),
    "udiv": (lambda A, B: A // B, lambda a, b, w: bvsem.bvop("udiv", a, b, w), lambda a, b, w: b == 0),
    "sdiv": (lambda A, B: A.sdiv(B), _sdiv, lambda a, b, w: b == 0),
    "mod": (lambda A, B: A % B, lambda a, b, w: bvsem.bvop("urem", a, b, w), lambda a, b, w: b == 0),
    "and": (lambda A, B: A & B, lambda a, b, w: a & b, None),
    "or": (lambda A, B: A | B, lambda a, b, w: a | b, None),
    "xor": (lambda A, B: A ^ B, lambda a, b, w: a ^ b, None),
    "shl": (lambda A, B: A << B, lambda a, b, w: bvsem.bvop("shl", a, b, w), None),
    "lshr": (lambda A, B: A.LShR(B), lambda a, b, w: bvsem.bvop("lshr", a, b, w), None),
    "ashr": (lambda A, B: A >> B, lambda a, b, w: bvsem.bvop("ashr", a, b, w), None),
}

# ---------------------------------------------------------------- comparisons -> BoolResult
CMP = {
    "ult": (lambda A, B: A.ULT(B), "ult"),
    "ule": (lambda A, B: A.ULE(B), "ule"),
    "ugt": (lambda A, B: A.UGT(B), "ugt"),
    "uge": (lambda A, B: A.UGE(B), "uge"),
    "slt": (lambda A, B: A.SLT(B), "slt"),
    "sle": (lambda A, B: A.SLE(B), "sle"),
    "sgt": (lambda A, B: A.SGT(B), "sgt"),
    "sge": (lambda A, B: A.SGE(B), "sge"),
    "eq": (lambda A, B: A == B, "eq"),
    "ne": (lambda A, B: A != B, "ne"),
}

# ---------------------------------------------------------------- unary
UN = {
    "neg": (lambda A: -A, lambda a, w: (-a) & bvsem.mask(w)),
    "neg_method": (lambda A: A.neg(), lambda a, w: (-a) & bvsem.mask(w)),
    "not": (lambda A: ~A, lambda a, w: (~a) & bvsem.mask(w)),
}


def bool_values(r):
    """truth values a BoolResult (or Python bool) admits"""
    if r is True or r is False:
        return {r}
    return set(r.value)
