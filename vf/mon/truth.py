"""M-truth: every `True` returned by a backend's or frontend's is_true/is_false is queued for the
Z3 validity oracle.  Installed by class-attribute replacement."""
from __future__ import annotations

_installed = False
events: list[tuple] = []  # (site, which, expr, solver-or-None, extra_constraints)
counts: dict[str, int] = {}
MAX_EVENTS = 200000


def install():
    global _installed
    if _installed:
        return
    _installed = True
    import claripy
    from claripy.backends.backend import Backend
    from claripy.backends.backend_concrete import BackendConcrete
    from claripy.backends.backend_vsa import BackendVSA
    from claripy.backends.backend_z3 import BackendZ3

    def wrap_backend(cls):
        for which in ("is_true", "is_false"):
            if which not in cls.__dict__:
                continue
            orig = cls.__dict__[which]

            def make(orig, which):
                def mon(self, e, *a, **kw):
                    r = orig(self, e, *a, **kw)
                    key = f"{type(self).__name__}.{which}"
                    counts[key] = counts.get(key, 0) + 1
                    if r is True and isinstance(e, claripy.ast.Base) and len(events) < MAX_EVENTS:
                        counts[key + ":True"] = counts.get(key + ":True", 0) + 1
                        events.append((type(self).__name__, which, e, None, tuple(kw.get("extra_constraints", ()) or ())))
                    return r

                return mon

            setattr(cls, which, make(orig, which))

    for cls in (Backend, BackendConcrete, BackendZ3, BackendVSA):
        wrap_backend(cls)


def wrap_frontend(s):
    """instance-level wrappers on a solver object (records the solver for the relative oracle)"""
    import claripy

    for which in ("is_true", "is_false"):
        orig = getattr(s, which)

        def make(orig, which):
            def mon(e, extra_constraints=(), **kw):
                r = orig(e, extra_constraints=extra_constraints, **kw)
                key = f"{type(s).__name__}.{which}"
                counts[key] = counts.get(key, 0) + 1
                if r is True and isinstance(e, claripy.ast.Base):
                    counts[key + ":True"] = counts.get(key + ":True", 0) + 1
                    events.append((type(s).__name__, which, e, list(s.constraints), tuple(extra_constraints)))
                return r

            return mon

        setattr(s, which, make(orig, which))
    return s


def si_hypotheses(exprs):
    """Z3 hypotheses 'variable inside its StridedIntervalAnnotation' for every annotated BVS leaf"""
    import claripy
    import z3

    from vf.mon import sem
    from vf.ref import z3ref

    hyps = []
    seen = set()
    for e in exprs:
        if not isinstance(e, claripy.ast.Base):
            continue
        for leaf in e.leaf_asts():
            if leaf.op != "BVS" or leaf.hash() in seen:
                continue
            seen.add(leaf.hash())
            for a in leaf.annotations:
                if isinstance(a, claripy.annotation.StridedIntervalAnnotation):
                    w = leaf.length
                    m = (1 << w) - 1
                    v = z3.BitVec(leaf.args[0], w, ctx=z3ref.ctx())
                    lb = (a.lower_bound or 0) & m
                    ub = (a.upper_bound if a.upper_bound is not None else m) & m
                    st = a.stride if a.stride is not None else 1
                    off = v - z3.BitVecVal(lb, w, ctx=z3ref.ctx())
                    hyps.append(z3.ULE(off, z3.BitVecVal((ub - lb) & m, w, ctx=z3ref.ctx())))
                    if st and st > 1:
                        hyps.append(z3.URem(off, z3.BitVecVal(st & m, w, ctx=z3ref.ctx())) == 0)
    return hyps


def judge_events(res, tmo=2000, label="", limit=None):
    """drain the event queue through the Z3 oracle"""
    import claripy
    import z3

    from vf.mon import sem
    from vf.ref import z3ref

    seen = set()
    n = 0
    while events:
        site, which, e, cons, extra = events.pop()
        key = (site, which, e.hash(), tuple(c.hash() for c in (cons or [])), tuple(getattr(c, "hash", lambda: id(c))() for c in extra))
        if key in seen:
            res.count("true_events_duplicate")
            continue
        seen.add(key)
        if limit is not None and n >= limit:
            res.count("true_events_not_judged_over_limit")
            continue
        n += 1
        res.count("true_events_judged")
        res.count(f"true_events:{site}.{which}")
        nontrivial = e.op != "BoolV"
        res.case(["truth", site, which, e.hash(), len(cons or []), len(extra)], nontrivial, sample={"site": site, "which": which, "expr": repr(e)[:160], "constraints": [repr(c)[:80] for c in (cons or [])][:4]})
        try:
            T = sem.claripy_z3(e)
            hyp = []
            if cons is not None:
                hyp += [sem.claripy_z3(c) for c in cons]
                hyp += [sem.claripy_z3(c) for c in extra if isinstance(c, claripy.ast.Base)]
                if any((c is False) for c in extra):
                    continue  # vacuous
            hyp += si_hypotheses([e, *(cons or []), *extra])
        except (claripy.errors.ClaripyError, z3.Z3Exception):
            res.count("true_events_untranslatable")
            continue
        goal = T if which == "is_true" else z3.Not(T)
        ok, wit = z3ref.is_valid(goal, hyp=hyp, timeout_ms=tmo)
        if ok is None:
            res.count("oracle_unknown")
        elif ok is False:
            res.violation({"kind": "truth", "what": f"{which}-returned-True-but-countermodel-exists", "site": site, "where": label, "expr": repr(e)[:300], "constraints": [repr(c)[:150] for c in (cons or [])], "extra": [repr(c)[:150] for c in extra], "assignment": wit})
    return n
