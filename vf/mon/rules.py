"""M-rules: which rewrite rules fired, and which `return` lines of the rewriter were reached.

Installed from the harness; nothing in /repo is edited.  `simplifications.simplify` looks the
simplifier up in `_all_simplifiers` at call time, so replacing the dict's values is enough.
"""
from __future__ import annotations

import ast
import sys

_installed = False
calls: dict[str, int] = {}
fired: dict[str, int] = {}
_lines_hit: set[tuple[str, int]] = set()
_return_lines: dict[str, set[int]] = {}
TOOL_ID = 3


def install(line_coverage=True):
    global _installed
    if _installed:
        return
    _installed = True
    import claripy.ast.bool as cbool
    import claripy.operations as cops
    import claripy.simplifications as S

    for name, fn in list(S._all_simplifiers.items()):
        S._all_simplifiers[name] = _wrap(name, fn)

    if not line_coverage or not hasattr(sys, "monitoring"):
        return
    mon = sys.monitoring
    try:
        mon.use_tool_id(TOOL_ID, "vf-rules")
    except ValueError:
        return
    codes = []
    for mod, names in ((S, None), (cbool, ["If", "ite_cases", "ite_dict"]), (cops, ["_handle_annotations"])):
        src = open(mod.__file__).read()
        tree = ast.parse(src)
        rl = set()
        for fnode in ast.walk(tree):
            if isinstance(fnode, ast.FunctionDef) and (names is None or fnode.name in names):
                for n in ast.walk(fnode):
                    if isinstance(n, ast.Return):
                        rl.add(n.lineno)
        _return_lines[mod.__file__] = rl
        for k, v in vars(mod).items():
            if callable(v) and hasattr(v, "__code__") and v.__code__.co_filename == mod.__file__:
                if names is None or k in names:
                    codes.append(v.__code__)
                    for c in v.__code__.co_consts:
                        if hasattr(c, "co_code"):
                            codes.append(c)

    def on_line(code, lineno):
        _lines_hit.add((code.co_filename, lineno))
        return mon.DISABLE

    mon.register_callback(TOOL_ID, mon.events.LINE, on_line)
    for c in codes:
        try:
            mon.set_local_events(TOOL_ID, c, mon.events.LINE)
        except Exception:  # noqa: BLE001
            pass


def _wrap(name, fn):
    def wrapper(*args):
        calls[name] = calls.get(name, 0) + 1
        r = fn(*args)
        if r is not None:
            fired[name] = fired.get(name, 0) + 1
        return r

    wrapper.__wrapped__ = fn
    wrapper.__name__ = getattr(fn, "__name__", name)
    return wrapper


def report(res):
    for k, v in calls.items():
        res.count("rule_calls:" + k, v)
    for k, v in fired.items():
        res.count("rule_fired:" + k, v)
    for f, rl in _return_lines.items():
        short = f.rsplit("/claripy/", 1)[-1]
        for ln in rl:
            if (f, ln) in _lines_hit:
                res.setadd("return_lines_reached", f"{short}:{ln}", cap=2000)
            res.setadd("return_lines_all", f"{short}:{ln}", cap=2000)
