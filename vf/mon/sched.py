"""M-sched: deterministic line-level scheduler for the real GC guard of claripy's Z3 backend.

Real threads run the real `_enter_z3`, `_exit_z3` and `condom`-wrapped callables of claripy.backends.backend_z3.
A `sys.monitoring` LINE callback registered for exactly those code objects parks the running thread after every
line; the controller decides which thread runs next from a choice list, so every interleaving at statement
granularity can be produced on demand and replayed.  `backend_z3._gc_lock` is replaced by a scheduler-aware lock
(a thread waiting for it is not runnable) and `backend_z3.gc` by a model object with isenabled/enable/disable, so
the process's own collector is never touched and the flag can be read at every step.

Programs (one list per thread) are made of
    "E"                 call _enter_z3(); the call is in progress once it has returned
    "X"                 the call stops being in progress; call _exit_z3()
    ("C", kind)         call a condom-wrapped function; kind in {"ok", "raise", "nested"}; the call is in progress
                        while its body runs (the body contains explicit yield points)
The oracle is evaluated by the controller after every step (see check_step) and at quiescence (check_end).
"""
from __future__ import annotations

import sys
import threading

TOOL_ID = 4  # a free sys.monitoring tool id


class ModelGC:
    def __init__(self, enabled):
        self.enabled = enabled
        self.log = []

    def isenabled(self):
        return self.enabled

    def enable(self):
        self.enabled = True
        self.log.append("enable")

    def disable(self):
        self.enabled = False
        self.log.append("disable")


class SchedLock:
    """stands in for backend_z3._gc_lock: mutual exclusion decided by the scheduler"""

    def __init__(self, sched):
        self.sched = sched
        self.owner = None

    def acquire(self, blocking=True, timeout=-1):
        s = self.sched
        t = s.current()
        if t is None:  # not a scheduled thread (controller phases): nobody else runs
            self.owner = "main"
            return True
        while self.owner is not None:
            s.waiting[t] = True
            s.yield_point(("lock-wait", 0))
        s.waiting[t] = False
        self.owner = t
        return True

    def release(self):
        self.owner = None

    def __enter__(self):
        self.acquire()
        return self

    def __exit__(self, *a):
        self.release()
        return False


class Violation(Exception):
    pass


class Sched:
    def __init__(self, bz3, programs, gc_initial, choices=(), rng=None, max_steps=5000):
        self.bz3 = bz3
        self.programs = programs
        self.n = len(programs)
        self.choices = list(choices)
        self.rng = rng  # random continuation after the choice prefix (None: first runnable thread)
        self.max_steps = max_steps
        self.model = ModelGC(gc_initial)
        self.gc_initial = gc_initial
        self.lock = SchedLock(self)
        self.go = [threading.Semaphore(0) for _ in range(self.n)]
        self.ctl = threading.Semaphore(0)
        self.tid = {}
        self.pc = [0] * self.n
        self.pos = [("start", 0)] * self.n
        self.waiting = [False] * self.n
        self.inprog = [0] * self.n
        self.done = [False] * self.n
        self.errors = []  # exceptions escaping a worker
        self.trace = []  # (thread, position) per step
        self.decisions = []  # (index in trace, state key, runnable) per scheduling decision
        self.underflows = 0
        self.violation = None

    # ---------------------------------------------------------------- worker side
    def current(self):
        return self.tid.get(threading.get_ident())

    def yield_point(self, pos):
        t = self.current()
        if t is None:
            return
        self.pos[t] = pos
        self.ctl.release()
        self.go[t].acquire()

    def _worker(self, t):
        self.tid[threading.get_ident()] = t
        self.go[t].acquire()
        try:
            for i, op in enumerate(self.programs[t]):
                self.pc[t] = i
                self._do(t, op)
            self.pc[t] = len(self.programs[t])
        except BaseException as e:  # noqa: BLE001
            self.errors.append((t, repr(e)))
        finally:
            self.done[t] = True
            self.pos[t] = ("end", 0)
            self.ctl.release()

    def _do(self, t, op):
        bz3 = self.bz3
        if op == "E":
            bz3._enter_z3()
            self.inprog[t] += 1
            self.yield_point(("in-call", 0))
        elif op == "X":
            self.inprog[t] -= 1
            bz3._exit_z3()
        else:
            _c, kind = op
            self._condom(t, kind)

    def _condom(self, t, kind):
        import z3

        bz3 = self.bz3

        def body():
            self.inprog[t] += 1
            try:
                self.yield_point(("body", 1))
                if kind == "nested":
                    bz3.condom(inner)()
                self.yield_point(("body", 2))
                if kind == "raise":
                    raise z3.Z3Exception("injected")
            finally:
                self.inprog[t] -= 1

        def inner():
            self.inprog[t] += 1
            try:
                self.yield_point(("inner", 1))
            finally:
                self.inprog[t] -= 1

        try:
            bz3.condom(body)()
            if kind == "raise":
                self.errors.append((t, "condom did not raise"))
        except bz3.ClaripyZ3Error:
            if kind != "raise":
                raise

    # ---------------------------------------------------------------- controller side
    def state_key(self):
        b = self.bz3
        return (tuple(self.pc), tuple(self.pos), tuple(self.waiting), tuple(self.inprog), tuple(self.done), b._active_z3_calls, b._gc_was_enabled, self.model.enabled, self.lock.owner)

    def runnable(self):
        return [t for t in range(self.n) if not self.done[t] and not (self.waiting[t] and self.lock.owner is not None)]

    def check_step(self):
        b = self.bz3
        if b._active_z3_calls < 0:
            return "in-progress count is negative"
        if self.underflows:
            return "GC guard underflow was logged"
        if sum(self.inprog) > 0 and self.model.enabled:
            return "the collector is enabled while a solver-backend call is in progress"
        if sum(self.inprog) > b._active_z3_calls:
            return "fewer calls are counted than are in progress"
        return None

    def check_end(self):
        b = self.bz3
        if self.errors:
            return f"a thread raised: {self.errors[:2]}"
        if b._active_z3_calls != 0:
            return f"in-progress count is {b._active_z3_calls} after all calls returned"
        if self.model.enabled != self.gc_initial:
            return f"the collector is {'enabled' if self.model.enabled else 'disabled'} after all calls returned; it was {'enabled' if self.gc_initial else 'disabled'} before"
        return None

    def run(self):
        """one complete execution; returns the violation text or None"""
        threads = [threading.Thread(target=self._worker, args=(t,), daemon=True) for t in range(self.n)]
        for th in threads:
            th.start()
        step = 0
        while True:
            r = self.runnable()
            if not r:
                if not all(self.done):
                    self.violation = "deadlock: no thread can run"
                break
            if len(r) > 1:
                di = len(self.decisions)
                if di < len(self.choices) and self.choices[di] in r:
                    pick = self.choices[di]
                elif self.rng is not None:
                    pick = self.rng.choice(r)
                else:
                    pick = r[0]
                self.decisions.append((len(self.trace), self.state_key(), tuple(r), pick))
            else:
                pick = r[0]
            self.go[pick].release()
            self.ctl.acquire()
            self.trace.append((pick, self.pos[pick]))
            step += 1
            v = self.check_step()
            if v:
                self.violation = v
                break
            if step > self.max_steps:
                self.violation = "step budget exhausted (livelock?)"
                break
        if self.violation is None:
            self.violation = self.check_end()
        else:
            # let the remaining threads run to completion so that they do not linger: release them in turn, unchecked
            self._drain()
        for th in threads:
            th.join(timeout=5)
        return self.violation

    def _drain(self):
        for _ in range(self.max_steps):
            r = [t for t in range(self.n) if not self.done[t]]
            if not r:
                return
            rr = [t for t in r if not (self.waiting[t] and self.lock.owner is not None)] or r
            self.lock.owner = None if not rr else self.lock.owner
            self.go[rr[0]].release()
            self.ctl.acquire()


class Harness:
    """installs the model lock / collector and the LINE monitor on the real functions; one per process"""

    def __init__(self):
        import logging

        import claripy.backends.backend_z3 as bz3

        self.bz3 = bz3
        self.current = None  # the Sched in control
        self.codes = [bz3._enter_z3.__code__, bz3._exit_z3.__code__, bz3.condom(lambda: None).__code__]
        self.saved = (bz3._gc_lock, bz3.gc)
        mon = sys.monitoring
        mon.use_tool_id(TOOL_ID, "vf-sched")
        mon.register_callback(TOOL_ID, mon.events.LINE, self._on_line)
        for c in self.codes:
            mon.set_local_events(TOOL_ID, c, mon.events.LINE)
        self.line_events = 0
        harness = self

        class H(logging.Handler):
            def emit(self, record):
                if "underflow" in record.getMessage() and harness.current is not None:
                    harness.current.underflows += 1

        self._handler = H()
        bz3.log.addHandler(self._handler)

    def _on_line(self, code, lineno):
        s = self.current
        if s is not None and s.current() is not None:
            self.line_events += 1
            s.yield_point((code.co_name, lineno))

    def execute(self, programs, gc_initial, choices=(), rng=None, pre=None):
        """run one schedule on a clean guard state"""
        bz3 = self.bz3
        bz3._active_z3_calls = 0
        bz3._gc_was_enabled = False
        s = Sched(bz3, programs, gc_initial, choices, rng)
        bz3._gc_lock = s.lock
        bz3.gc = s.model
        self.current = s
        try:
            if pre is not None:
                pre(s)
            s.run()
        finally:
            self.current = None
            bz3._gc_lock, bz3.gc = self.saved
        return s

    def close(self):
        mon = sys.monitoring
        for c in self.codes:
            mon.set_local_events(TOOL_ID, c, 0)
        mon.register_callback(TOOL_ID, mon.events.LINE, None)
        mon.free_tool_id(TOOL_ID)
        self.bz3.log.removeHandler(self._handler)
        self.bz3._active_z3_calls = 0
        self.bz3._gc_was_enabled = False


def explore(h, programs, gc_initial, pre=None, limit=None):
    """depth-first search over all schedules with state caching; returns (stats, first violating Sched or None)"""
    visited = set()
    stack = [[]]
    runs = 0
    max_decisions = 0
    while stack:
        prefix = stack.pop()
        s = h.execute(programs, gc_initial, prefix, pre=pre)
        runs += 1
        if s.violation:
            return {"schedules": runs, "states": len(visited), "max_decisions": max_decisions, "complete": False}, s
        max_decisions = max(max_decisions, len(s.decisions))
        picks = [d[3] for d in s.decisions]
        for i in range(len(prefix), len(s.decisions)):
            _ti, key, runnable, pick = s.decisions[i]
            if key in visited:
                continue
            visited.add(key)
            for alt in runnable:
                if alt != pick:
                    stack.append(picks[:i] + [alt])
        if limit is not None and runs >= limit:
            return {"schedules": runs, "states": len(visited), "max_decisions": max_decisions, "complete": not stack}, None
    return {"schedules": runs, "states": len(visited), "max_decisions": max_decisions, "complete": True}, None
