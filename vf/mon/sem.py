"""Semantic oracle shared by several properties: claripy AST vs. descriptor meaning."""
from __future__ import annotations

import itertools

import claripy
import z3

from vf.gen.build import build
from vf.ref import bvsem, z3ref


class Keep:
    """Strong references: the hash-cons table is weak, keep compared ASTs alive."""

    def __init__(self, cap=20000):
        self.items = []
        self.cap = cap

    def add(self, x):
        self.items.append(x)
        if len(self.items) > self.cap:
            del self.items[: self.cap // 2]


def claripy_z3(ast):
    """claripy's own translation of the AST, moved into the private context."""
    t = claripy.backends.z3.convert(ast)
    return z3ref.import_term(t)


def sort_of_desc(d):
    if bvsem.is_bool(d):
        return ("bool",)
    return ("bv", bvsem.width(d))


def sort_of_ast(a):
    if isinstance(a, claripy.ast.Bool):
        return ("bool",)
    if isinstance(a, claripy.ast.BV):
        return ("bv", a.length)
    return (type(a).__name__, getattr(a, "length", None))


def div0_possible(d, rng, tries=6):
    """Is there a division node whose divisor evaluates to zero under sampled assignments
    (i.e. could the ClaripyZeroDivisionError exemption apply)?"""
    vs = bvsem.variables(d)
    for _ in range(tries):
        env = {n: (rng.getrandbits(s[1]) if s[0] == "bv" else rng.random() < 0.5) for n, s in vs.items()}
        try:
            bvsem.ev(d, env, strict_div=True)
        except bvsem.DivByZero:
            return True
    return False


def assignments(d, rng, limit_bits=6, nrand=8):
    vs = bvsem.variables(d)
    names = sorted(vs)
    bits = sum(1 if vs[n][0] == "bool" else vs[n][1] for n in names)
    if bits <= limit_bits:
        doms = [range(2) if vs[n][0] == "bool" else range(1 << vs[n][1]) for n in names]
        for combo in itertools.product(*doms):
            yield {n: (bool(v) if vs[n][0] == "bool" else v) for n, v in zip(names, combo)}
        return
    for i in range(nrand):
        env = {}
        for n in names:
            if vs[n][0] == "bool":
                env[n] = rng.random() < 0.5
            else:
                w = vs[n][1]
                env[n] = rng.choice([0, 1, (1 << w) - 1, 1 << (w - 1), rng.getrandbits(w), rng.getrandbits(w)]) if i else 0
        yield env


def concrete_value(ast):
    """Value of a variable-free AST through claripy's concrete backend."""
    raw = claripy.backends.concrete.convert(ast)
    if isinstance(raw, bool):
        return raw
    return raw.value


def check_meaning(d, ast, rng, timeout_ms=2000, fold=True, fold_limit_bits=6, nrand=6):
    """Compare the AST claripy returned for descriptor d with what d denotes.

    Returns a list of problem dicts (empty = all three meanings coincide) and a status string
    in {"eq", "sampled"}."""
    probs = []
    if sort_of_ast(ast) != sort_of_desc(d):
        probs.append({"what": "sort", "observed": sort_of_ast(ast), "expected": sort_of_desc(d)})
        return probs, "sort"
    R = z3ref.term(d)
    try:
        T = claripy_z3(ast)
    except claripy.errors.ClaripyError as e:
        probs.append({"what": "z3-convert-raised", "observed": repr(e)})
        return probs, "noconv"
    st, wit = z3ref.equivalent(T, R, timeout_ms=timeout_ms, rng=rng)
    if st == "sort":
        probs.append({"what": "z3-sort", "observed": wit})
    elif st == "neq":
        env = _complete(d, wit)
        w = None
        try:
            w = bvsem.ev(d, env)
        except Exception:  # noqa: BLE001
            pass
        built = None
        try:
            built = _eval_z3(T, env)
        except Exception:  # noqa: BLE001
            pass
        probs.append({"what": "not-equivalent", "assignment": env, "written": w, "built": built, "ast": repr(ast)[:300]})
    if fold and not probs:
        for env in assignments(d, rng, fold_limit_bits, nrand):
            try:
                want = bvsem.ev(d, env, strict_div=True)
            except bvsem.DivByZero:
                continue
            cd = bvsem.subst(d, env)
            try:
                cast_ = build(cd)
            except claripy.errors.ClaripyZeroDivisionError:
                probs.append({"what": "fold-spurious-div0", "assignment": env, "written": want})
                break
            except Exception:  # noqa: BLE001  (crashes while folding are C04's subject)
                break
            if cast_.symbolic:
                probs.append({"what": "fold-still-symbolic", "assignment": env})
                break
            try:
                got = concrete_value(cast_)
            except claripy.errors.BackendError:
                # a concrete tree the concrete backend declines: compare through Z3 instead
                got = _eval_z3(claripy_z3(cast_), {})
            if got != want or type(got) is not type(want):
                probs.append({"what": "fold-differs", "assignment": env, "written": want, "built": got, "ast": repr(cast_)[:200]})
                break
    return probs, st


def _complete(d, wit):
    vs = bvsem.variables(d)
    env = {}
    for n, s in vs.items():
        v = (wit or {}).get(n)
        if v is None:
            v = False if s[0] == "bool" else 0
        env[n] = v
    return env


def _eval_z3(T, env):
    c = z3ref.ctx()
    subs = []
    for name, k in z3ref.free_consts(T).items():
        s = k.sort()
        if z3.is_bv_sort(s):
            subs.append((k, z3.BitVecVal(int(env.get(name, 0)), s.size(), ctx=c)))
        else:
            subs.append((k, z3.BoolVal(bool(env.get(name, False)), ctx=c)))
    v = z3.simplify(z3.substitute(T, *subs)) if subs else z3.simplify(T)
    if z3.is_bv_value(v):
        return v.as_long()
    if z3.is_true(v):
        return True
    if z3.is_false(v):
        return False
    return str(v)
