"""Fold the results of vf.selftest.seeded runs into seeded/<id>/meta.json and write seeded/TABLE.md.

usage: python -m vf.selftest.mktable result1.json [result2.json ...]
(later files add to / override earlier ones per (mutation, check))"""
from __future__ import annotations

import json
import os
import subprocess
import sys

ROOT = os.path.dirname(os.path.dirname(os.path.dirname(os.path.abspath(__file__))))

# which workload was added after the first run of the mutation's own check missed it (from the commit history of /verif)
STRENGTHENED = {
    "C01_1": "slice-merging templates",
    "C02_1": "Boolean structure over FP comparisons", "C03_1": "escape-like literals", "C04_2": "hostile rotate idioms", "C05_1": "masks over Concat / substitution below annotated nodes",
    "C06_1": "serialisation-collision payloads, ESI-vs-constant pairs", "C06_4": "annotation order", "C07_2": "repeated simplify", "C08_2": "overlapping and mirrored substitution maps",
    "C09_1": "FP comparisons against special values", "C09_2": "annotated solver constraints", "C10_2": "float frontend histories", "C11_4": "cache-tempting query patterns",
    "C12_3": "directed composite patterns", "C12_4": "directed composite patterns", "C13_2": "refutable what-if probes", "C13_3": "pickle step in histories",
    "C14_1": "directed opening (spanning query before the branch)", "C14_3": "approximate probes, in-place add_replacement", "C15_1": "directed combine", "C15_2": "simplify-then-partial-add scenario",
    "C18_1": "approximate-side probes", "C21_1": "operand-reuse shard", "C23_1": "query-then-enlarge sequences", "C25_3": "removable-shift shapes", "C25_4": "branch-parent probes",
    "C26_1": "queries under a linking extra constraint", "C26_2": "values after a sibling branch solved",
    "C03_3": "digits followed by line ends", "C03_4": "number<->string round trips on variables", "C04_4": "constructions in other threads", "C05_4": "float constants with copies of the sort object",
    "C08_4": "canonicalize over canonical names", "C09_3": "second add/simplify round", "C10_3": "truth queries on derived solvers", "C15_3": "split over bridged groups", "C15_4": "merge of copies sharing an unchecked unsatisfiable group",
    "C16_4": "another solver between core calls", "C17_3": "directed unsatisfiable-group histories", "C19_3": "cache evictions during a call", "C19_4": "backend calls that raise",
    "C20_3": "fresh-symbol round", "C20_4": "backend downsize half-way", "C23_4": "regions in another insertion order", "C24_4": "same range, different variables behind Ifs",
    "C26_3": "copies taken right after an add", "C26_4": "solvers combined after solving",
    "C10_2": "every float special value x every way of writing the equality", "C17_4": "the faulted question asked again first", "C18_3": "identity-hashed user annotation round trips", "C18_4": "first questions on fresh copies of a solver stored before any query",
    "C11_5": "optimum, copy, optimum in the other signedness", "C13_5": "annotated and bare duplicate in one batch with a pinning equality", "C14_5": "a disturbance step run in a worker thread", "C14_6": "bystander of a merge of relatives",
    "C21_5": "values derived from an operand compared with it", "C21_6": "word-width ranges wrapping around zero against small constants", "C22_6": "union/widen written as expressions, with a reversed copy of the same value", "C25_6": "masks ending below, at and above the extended value",
    "C06_6": "annotation class with per-instance flags", "C06_7": "plain Python floats as operands, earlier expressions kept alive", "C12_6": "bystander of a merge of relatives", "C13_6": "approximate half of the parts of a split hybrid", "C22_5": "operand unchanged after the operation",
    "C16_6": "cores of solvers derived from a solver already found contradictory (split, merge, blank_copy, combine)", "C18_5": "replacement store changed after the round trip, look-up cache filled before it", "C07_5": "top annotations edited after construction, then simplify",
}
CROSS_ONLY = {"C06_2": "C18", "C13_4": "C15", "C02_3": "C26", "C06_6": "C07", "C06_7": "C02", "C12_6": "C14", "C13_6": "C15", "C22_5": "C21", "C10_5": "C02"}


def main(files):
    head = subprocess.run(["git", "-C", os.environ.get("VERIF_REPO", "/repo"), "rev-parse", "--short", "HEAD"], capture_output=True, text=True).stdout.strip()
    merged = {}
    for fn in files:
        for r in json.load(open(fn)):
            m = merged.setdefault(r["id"], {"checks": {}})
            for k, v in r.items():
                if k == "checks":
                    m["checks"].update(v or {})
                elif k == "caught_by":
                    m["caught_by"] = sorted(set(m.get("caught_by", [])) | set(v or []))
                elif k in ("applies", "tests_pass", "demo_with_patch", "demo_without_patch", "tests_tail", "property", "error") and (k not in m or v is not None):
                    if k in ("applies", "tests_pass", "demo_with_patch", "demo_without_patch") and k in m and v is None:
                        continue
                    m[k] = v
    rows = []
    for mid in sorted(os.listdir(os.path.join(ROOT, "seeded"))):
        mp = os.path.join(ROOT, "seeded", mid, "meta.json")
        if not os.path.isfile(mp):
            continue
        meta = json.load(open(mp))
        r = merged.get(mid)
        if r is not None:
            confirmed = bool(r.get("applies") and r.get("tests_pass") and r.get("demo_with_patch") == 1 and r.get("demo_without_patch") == 0)
            meta["verification"] = {
                "repo_head": head,
                "what_was_run": "git worktree of /repo at HEAD outside /repo and /verif; git apply patch.diff; the repository's 331 tests; demo.py with and without the patch; ./check <id> --tier quick with VERIF_SEED=1 and VERIF_REPO pointing at the worktree; worktree removed",
                "patch_applies": r.get("applies"),
                "tests_pass_with_patch": r.get("tests_pass"),
                "tests_tail": r.get("tests_tail"),
                "demo_exit_with_patch": r.get("demo_with_patch"),
                "demo_exit_without_patch": r.get("demo_without_patch"),
                "confirmed": confirmed,
                "checks_run": {k: {"exit": v.get("rc"), "violations": v.get("violations"), "first_violation": (v.get("first") or "")[:300], "wall_s": v.get("wall_s")} for k, v in (r.get("checks") or {}).items()},
                "caught_by": r.get("caught_by", []),
            }
            if mid in STRENGTHENED:
                meta["verification"]["missed_by_first_run_then_added"] = STRENGTHENED[mid]
            if mid in CROSS_ONLY:
                meta["verification"]["note"] = f"not visible to the check of its own property; caught by {CROSS_ONLY[mid]}"
            json.dump(meta, open(mp, "w"), indent=2)
            open(mp, "a").write("\n")
        v = meta.get("verification", {})
        summ = " ".join(str(meta.get("summary", "")).split())
        rows.append((mid, meta.get("property"), ", ".join(meta.get("files_touched", []))[:70], summ[:150] + ("…" if len(summ) > 150 else ""), "yes" if v.get("confirmed") else "NO", ", ".join(v.get("caught_by", [])) or "—", STRENGTHENED.get(mid, "") + (f" (only {CROSS_ONLY[mid]} sees it)" if mid in CROSS_ONLY else "")))
    out = ["| id | property | site | what the change does | confirmed | caught by (quick, seed 1) | added after a first miss |", "|---|---|---|---|---|---|---|"]
    for row in rows:
        out.append("| " + " | ".join(str(x).replace("|", "\\|") for x in row) + " |")
    open(os.path.join(ROOT, "seeded", "TABLE.md"), "w").write(f"Seeded changes, verified against /repo at {head}.\n\n" + "\n".join(out) + "\n")
    n_conf = sum(1 for r in rows if r[4] == "yes")
    n_caught = sum(1 for r in rows if r[5] != "—")
    print(f"{len(rows)} seeded changes, {n_conf} confirmed, {n_caught} caught")
    for r in rows:
        if r[4] != "yes" or r[5] == "—":
            print("  attention:", r[0], r[4], r[5])


if __name__ == "__main__":
    main(sys.argv[1:])
