"""Self-test on seeded mutations: apply each kept change (seeded/<id>/patch.diff, or a candidate directory) to a scratch
worktree of /repo outside /repo and /verif, confirm that it compiles, passes the repository's own tests and fails its
demonstration, run the named checks against the scratch tree (VERIF_REPO) with their output redirected (VERIF_OUT), and
remove the worktree.

    python -m vf.selftest.seeded [--src DIR] [--only ID ...] [--checks C11,C14] [--tier quick] [--keep-going]
"""
from __future__ import annotations

import argparse
import json
import os
import shutil
import subprocess
import sys
import tempfile
import time

ROOT = os.path.dirname(os.path.dirname(os.path.dirname(os.path.abspath(__file__))))
REPO = "/repo"
PY = "/venv/bin/python"


def sh(cmd, cwd=None, env=None, timeout=3600):
    p = subprocess.run(cmd, cwd=cwd, env=env, capture_output=True, text=True, timeout=timeout)
    return p.returncode, (p.stdout or "") + (p.stderr or "")


def run_one(src, mid, checks, tier, seeds, confirm=True):
    d = os.path.join(src, mid)
    patch = os.path.join(d, "patch.diff")
    meta = {}
    if os.path.exists(os.path.join(d, "meta.json")):
        try:
            meta = json.load(open(os.path.join(d, "meta.json")))
        except Exception:  # noqa: BLE001
            meta = {}
    out = {"id": mid, "property": meta.get("property") or mid.split("_")[0]}
    base = tempfile.mkdtemp(prefix="vfseed_", dir="/tmp")
    wt = os.path.join(base, "wt")
    outdir = os.path.join(base, "out")
    os.makedirs(outdir)
    try:
        rc, o = sh(["git", "-C", REPO, "worktree", "add", "--detach", wt, "HEAD"])
        if rc:
            out["error"] = "worktree: " + o[-300:]
            return out
        rc, o = sh(["git", "-C", wt, "apply", patch])
        out["applies"] = rc == 0
        if rc:
            rc3, o3 = sh(["git", "-C", wt, "apply", "-3", patch])
            out["applies_3way"] = rc3 == 0
            if rc3:
                out["error"] = "patch does not apply: " + o[-300:]
                return out
        env = dict(os.environ, PYTHONPATH=wt, PYTHONDONTWRITEBYTECODE="1")
        if confirm:
            t0 = time.time()
            rc, o = sh([PY, "-m", "pytest", "-q", "-p", "no:cacheprovider", "-x", "tests/"], cwd=wt, env=env, timeout=1800)
            out["tests_pass"] = rc == 0
            out["tests_tail"] = o.strip().splitlines()[-1:] if o.strip() else []
            demo = os.path.join(d, "demo.py")
            if os.path.exists(demo):
                rc, o = sh([PY, demo], cwd=wt, env=env, timeout=600)
                out["demo_with_patch"] = rc
                env0 = dict(os.environ, PYTHONPATH=REPO, PYTHONDONTWRITEBYTECODE="1")
                rc0, o0 = sh([PY, demo], cwd=REPO, env=env0, timeout=600)
                out["demo_without_patch"] = rc0
            out["confirm_s"] = round(time.time() - t0, 1)
        out["checks"] = {}
        for pid in checks:
            for seed in seeds:
                cenv = dict(os.environ, VERIF_REPO=wt, VERIF_OUT=outdir, VERIF_SEED=str(seed))
                t0 = time.time()
                rc, o = sh([os.path.join(ROOT, "check"), pid, "--tier", tier], cwd=ROOT, env=cenv, timeout=7200)
                viol = [ln for ln in o.splitlines() if ln.startswith("VIOLATION")]
                first = ""
                lines = o.splitlines()
                for i, ln in enumerate(lines):
                    if ln.startswith("VIOLATION") and i + 1 < len(lines):
                        first = lines[i + 1].strip()[:400]
                        break
                out["checks"][f"{pid}@{seed}"] = {"rc": rc, "violations": len(viol), "first": first, "wall_s": round(time.time() - t0, 1), "last": lines[-1][:200] if lines else ""}
                if rc == 1 and viol:
                    break
        out["caught_by"] = sorted({k.split("@")[0] for k, v in out["checks"].items() if v["rc"] == 1 and v["violations"]})
        return out
    finally:
        sh(["git", "-C", REPO, "worktree", "remove", "--force", wt])
        shutil.rmtree(base, ignore_errors=True)
        sh(["git", "-C", REPO, "worktree", "prune"])


def main():
    ap = argparse.ArgumentParser()
    ap.add_argument("--src", default=os.path.join(ROOT, "seeded"))
    ap.add_argument("--only", nargs="*")
    ap.add_argument("--checks", default=None, help="comma list; default: the mutation's own property")
    ap.add_argument("--tier", default="quick")
    ap.add_argument("--seeds", default="1")
    ap.add_argument("--no-confirm", action="store_true")
    ap.add_argument("--json", default=None)
    a = ap.parse_args()
    ids = sorted(x for x in os.listdir(a.src) if os.path.exists(os.path.join(a.src, x, "patch.diff")))
    if a.only:
        ids = [i for i in ids if i in a.only or i.split("_")[0] in a.only]
    results = []
    for mid in ids:
        prop = mid.split("_")[0]
        checks = a.checks.split(",") if a.checks else [prop]
        r = run_one(a.src, mid, checks, a.tier, [int(s) for s in a.seeds.split(",")], confirm=not a.no_confirm)
        results.append(r)
        print(json.dumps(r)[:1500], flush=True)
    if a.json:
        with open(a.json, "w") as f:
            json.dump(results, f, indent=1)
    missed = [r["id"] for r in results if not r.get("caught_by")]
    print("MISSED:", missed)
    return 0


if __name__ == "__main__":
    sys.exit(main())
