"""C03 — string operations mean the same folded and solved, for every character."""
from __future__ import annotations

import itertools
import random
import traceback

PID = "C03"
LEVEL = "exploration"
RULE = (
    "cases are string-operation descriptors over a hostile pool of literals (empty, NUL, backslashes, the "
    "spelled-out \\u{48}, regex metacharacters, newlines, signs/underscores/Unicode digits, code points up to "
    "U+2FFFF) and boundary 64-bit indices, for the 11 string operations plus ==/!=.  Each case is judged twice: "
    "(fold) all operands constants -> claripy's folded result vs Z3's own folding of the same operation on "
    "literals built from code points; (solve) one operand replaced by a string variable -> claripy's Z3 "
    "translation of the unfolded AST must be equivalent to the reference term (structural, then solver, then "
    "substitution of the literal), and a real SolverStrings pinned with `s == literal` must return the oracle's "
    "value for BV/Bool-valued ops.  Non-trivial: has an operator node; distinct by descriptor hash."
    " Session 4: annotated literals, digits followed by line ends/blanks, number<->string round trips on literals and variables, numerals beyond the interpreter's 4300-digit limit."
)
ASSUMPTIONS = [
    "Z3 4.13 sequence theory folds literal applications per SMT-LIB strings",
    "code points above U+2FFFF are outside Z3's character range and are not generated",
]


def floors(tier):
    return {"judged_fold": 2000, "judged_solve_term": 300, "judged_solver_run": 50}


def plan(tier, seed):
    S = []
    if tier == "quick":
        S += [{"kind": "pairs", "part": i, "parts": 6, "solver_every": 40} for i in range(6)]
        S += [{"kind": "tri", "stream": i, "n": 500, "solver_every": 40} for i in range(4)]
        S += [{"kind": "rand", "stream": i, "n": 400, "solver_every": 40} for i in range(4)]
        S += [{"kind": "literals"}, {"kind": "roundtrip"}]
    else:
        S += [{"kind": "pairs", "part": i, "parts": 16, "solver_every": 8} for i in range(16)]
        S += [{"kind": "tri", "stream": i, "n": 4000, "solver_every": 10} for i in range(8)]
        S += [{"kind": "rand", "stream": i, "n": 3000, "solver_every": 10} for i in range(8)]
        S += [{"kind": "literals"}, {"kind": "roundtrip"}]
    return S


def _cases(spec, rng):
    from vf.gen import strbuild as sb

    P = sb.pool()
    IDX = sb.index_pool()
    k = spec["kind"]
    if k == "roundtrip":
        # number <-> string conversions composed, on literals and (judge: always solved) on a variable standing for them
        for a in P:
            yield ["inttostr", ["stoint", a]]
            yield ["stoint", ["inttostr", ["stoint", a]]]
            yield ["seq", ["inttostr", ["stoint", a]], a]
            yield ["slen", ["inttostr", ["stoint", a]]]
        return
    if k == "pairs":
        pairs = list(itertools.product(P, P))
        for n, (a, b) in enumerate(pairs):
            if n % spec["parts"] != spec["part"]:
                continue
            yield ["sconcat", a, b]
            yield ["scontains", a, b]
            yield ["sprefix", a, b]
            yield ["ssuffix", a, b]
            yield ["seq", a, b]
            yield ["sne", a, b]
            for i in (0, 1, len(a[1]), len(a[1]) + 1, rng.choice(IDX)):
                yield ["sindexof", a, b, ["bvv", i, 64]]
            yield ["sreplace", a, b, rng.choice(P)]
            yield ["sreplace", a, b, sb.S("")]
    elif k == "literals":
        for a in sb.long_numerals():
            yield ["stoint", a]
            yield ["stoint@meth", a]
            yield ["slen", a]
        for a in P:
            yield a
            yield ["slen", a]
            yield ["stoint", a]
            yield ["stoint@meth", a]
            for i in IDX:
                for c in (0, 1, 2, len(a[1]), 2**64 - 1, 2**63):
                    yield ["ssubstr", ["bvv", i, 64], ["bvv", c, 64], a]
        for v in [0, 1, 9, 10, 255, 2**31, 2**32, 2**63 - 1, 2**63, 2**64 - 1, 1234567890123456789]:
            yield ["inttostr", ["bvv", v, 64]]
            yield ["stoint", ["inttostr", ["bvv", v, 64]]]
            yield ["slen", ["inttostr", ["bvv", v, 64]]]
        for v in (0, 5, 255, 256, 65535):
            for w in (8, 16, 32):
                yield ["inttostr", ["bvv", v & ((1 << w) - 1), w]]
    elif k == "tri":
        for _ in range(spec["n"]):
            a, b, c = rng.choice(P), rng.choice(P), rng.choice(P)
            which = rng.randrange(6)
            if which == 0:
                yield ["sreplace", a, b, c]
            elif which == 1:
                yield ["sconcat", a, b, c]
            elif which == 2:
                yield ["ssubstr", ["bvv", rng.choice(IDX), 64], ["bvv", rng.choice(IDX), 64], ["sconcat", a, b]]
            elif which == 3:
                yield ["sindexof", ["sconcat", a, b, c], b, ["bvv", rng.choice(IDX[:8]), 64]]
            elif which == 4:
                yield ["sreplace@meth", ["sconcat", a, b], b, c]
            else:
                yield ["scontains", ["sreplace", a, b, c], c]
    elif k == "rand":
        for _ in range(spec["n"]):
            yield rand_tree(rng, 2)


def rand_cps(rng):
    n = rng.choice([0, 1, 1, 2, 3, 5])
    alpha = [0, 10, 32, 40, 41, 42, 43, 45, 46, 48, 49, 57, 63, 91, 92, 94, 95, 97, 98, 99, 123, 124, 125, 127, 128, 255, 256, 0x663, 0x1F600, 0x2FFFF]
    out = []
    for _ in range(n):
        cp = rng.choice(alpha) if rng.random() < 0.8 else rng.randrange(0, 0x30000)
        if 0xD800 <= cp <= 0xDFFF:  # surrogates are not Unicode scalar values
            cp = 0xE000
        out.append(cp)
    return out


def rand_str(rng, depth):
    from vf.gen import strbuild as sb

    if depth <= 0 or rng.random() < 0.3:
        lit = ["strv", rand_cps(rng)] if rng.random() < 0.5 else rng.choice(sb.pool())
        if rng.random() < 0.12 and lit[0] == "strv":
            # the same characters as an annotated constant (a different object from the plain constant)
            lit = ["strv@ann", lit[1]]
        return lit
    k = rng.randrange(4)
    if k == 0:
        return ["sconcat", rand_str(rng, depth - 1), rand_str(rng, depth - 1)]
    if k == 1:
        return ["ssubstr", ["bvv", rng.choice(sb.index_pool()), 64], ["bvv", rng.choice(sb.index_pool()), 64], rand_str(rng, depth - 1)]
    if k == 2:
        return ["sreplace", rand_str(rng, depth - 1), rand_str(rng, depth - 1), rand_str(rng, depth - 1)]
    if rng.random() < 0.5:
        # a string turned into a number and back (the identity only on canonical numerals below 2**64)
        return ["inttostr", ["stoint", rand_str(rng, depth - 1)]]
    return ["inttostr", ["bvv", rng.choice(sb.index_pool()), 64]]


def rand_tree(rng, depth):
    from vf.gen import strbuild as sb

    k = rng.randrange(9)
    a, b = rand_str(rng, depth), rand_str(rng, depth)
    if k == 0:
        return a
    if k == 1:
        return ["slen", a]
    if k == 2:
        return ["stoint", a] if rng.random() < 0.7 else ["stoint", ["inttostr", ["stoint", a]]]
    if k == 3:
        return ["sindexof", a, b, ["bvv", rng.choice(sb.index_pool()), 64]]
    if k == 4:
        return ["scontains", a, b]
    if k == 5:
        return ["sprefix", a, b]
    if k == 6:
        return ["ssuffix", a, b]
    if k == 7:
        return [rng.choice(["seq", "sne"]), a, b]
    return ["ult", ["slen", a], ["slen", b]]


def symbolize(d, rng):
    """Replace one literal operand (chosen at random) by a string variable; return (d', name, literal)."""
    lits = []

    def collect(x, path):
        if isinstance(x, list) and x and isinstance(x[0], str):
            if x[0] == "strv":
                lits.append(path)
            else:
                for i, y in enumerate(x[1:], 1):
                    collect(y, path + [i])

    collect(d, [])
    if not lits or lits == [[]]:
        return None
    path = rng.choice(lits)

    def rebuild(x, p):
        if not p:
            return ["strs", "sv"]
        y = list(x)
        y[p[0]] = rebuild(x[p[0]], p[1:])
        return y

    node = d
    for i in path:
        node = node[i]
    return rebuild(d, path), "sv", node


def run_shard(spec, res):
    rng = random.Random(f"{spec['seed']}:{PID}:{spec['kind']}:{spec.get('stream')}:{spec.get('part')}")
    tmo = 3000 if spec["tier"] == "quick" else 10000
    n = 0
    for d in _cases(spec, rng):
        n += 1
        judge(d, res, rng, tmo, run_solver=(spec["kind"] == "roundtrip" or n % spec.get("solver_every", 40) == 0))


def _pyval(ast):
    """value of a folded claripy AST as code points | int | bool"""
    import claripy

    if ast.op == "StringV":
        return [ord(c) for c in ast.args[0]]
    if ast.op == "BVV":
        return ast.args[0]
    if ast.op == "BoolV":
        return ast.args[0]
    return None


def judge(d, res, rng, tmo, run_solver=False):
    import claripy
    import z3

    from vf.gen import strbuild as sb
    from vf.mon import sem
    from vf.ref import strref, z3ref

    from vf.ref.bvsem import base

    nontriv = base(d[0]) not in ("strv", "strs")
    # ---------------- fold path
    try:
        ast = sb.build(d)
    except Exception as e:  # noqa: BLE001 (C04 judges crashes)
        res.count("build_raised:" + type(e).__name__)
        ast = None
    try:
        R = strref.term(d)
        want = strref.value(R)
        if ast is not None:
            res.case(d, nontriv)
            res.count("op:" + base(d[0]))
            res.count("judged_fold")
            so = strref.sort_of(d)
            ok_sort = (
                (so[0] == "str" and isinstance(ast, claripy.ast.String))
                or (so[0] == "bool" and isinstance(ast, claripy.ast.Bool))
                or (so[0] == "bv" and isinstance(ast, claripy.ast.BV) and ast.length == so[1])
            )
            if not ok_sort:
                res.violation({"kind": "str", "what": "sort", "case": d, "observed": f"{type(ast).__name__}/{getattr(ast, 'length', None)}", "expected": so})
            elif ast.symbolic:
                res.violation({"kind": "str", "what": "fold-still-symbolic", "case": d})
            else:
                got = _pyval(ast)
                if got is None:
                    res.count("not_folded")
                elif want is None:
                    res.count("oracle_not_folded")
                elif got != want or type(got) is not type(want):
                    res.violation({"kind": "str", "what": "fold-value", "case": d, "observed": got, "expected": want})
                # the folded (or unfolded) AST as the solver sees it
                T = sem.claripy_z3(ast)
                tv = strref.value(T)
                if want is not None and tv is not None and (tv != want or type(tv) is not type(want)):
                    res.violation({"kind": "str", "what": "z3-literal-value", "case": d, "observed": tv, "expected": want})
                elif tv is None:
                    res.count("z3_value_not_folded")
        # ---------------- solve path: one literal becomes a variable
        sym = symbolize(d, rng)
        if sym is None:
            return
        d2, name, litnode = sym
        ast2 = sb.build(d2)
        res.count("judged_solve_term")
        T2 = sem.claripy_z3(ast2)
        R2 = strref.term(d2)
        if not T2.eq(R2):
            c = z3ref.ctx()
            var = z3.String(name, ctx=c)
            a = z3.simplify(z3.substitute(T2, (var, strref.lit(litnode[1]))))
            b = z3.simplify(z3.substitute(R2, (var, strref.lit(litnode[1]))))
            va, vb = strref.value(a), strref.value(b)
            res.count("solve_term_by_substitution")
            if va is not None and vb is not None and (va != vb or type(va) is not type(vb)):
                res.violation({"kind": "str", "what": "solve-term-differs", "case": d2, "pinned": litnode, "observed": va, "expected": vb, "T": str(T2)[:300], "R": str(R2)[:300]})
        else:
            res.count("solve_term_structural")
        # ---------------- real solver run (BV/Bool-valued results only; C26 covers string model values)
        if run_solver and want is not None and strref.sort_of(d)[0] in ("bv", "bool"):
            s = claripy.SolverStrings()
            s.add(sb.build(["seq", ["strs", name], litnode]))
            res.count("judged_solver_run")
            if strref.sort_of(d)[0] == "bv":
                got = s.eval(ast2, 2)
                if tuple(got) != (want,):
                    res.violation({"kind": "str", "what": "solver-eval", "case": d2, "pinned": litnode, "observed": list(got), "expected": [want]})
            else:
                t = s.satisfiable(extra_constraints=[ast2])
                f = s.satisfiable(extra_constraints=[claripy.Not(ast2)])
                if (t, f) != (want, not want):
                    res.violation({"kind": "str", "what": "solver-truth", "case": d2, "pinned": litnode, "observed": [t, f], "expected": [want, not want]})
    except Exception as e:  # noqa: BLE001
        res.violation({"kind": "str", "what": "oracle-exception", "case": d, "observed": repr(e), "tb": traceback.format_exc()[-1500:]})


def replay(w, res):
    judge(w["case"], res, random.Random(0), 10000, run_solver=True)
