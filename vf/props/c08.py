"""C08 — substitution, canonicalisation and ITE utilities preserve meaning."""
from __future__ import annotations

import itertools
import random
import traceback

PID = "C08"
LEVEL = "exploration"
RULE = (
    "cases: (replace) random typed trees x a variable leaf or an inner sub-AST as `old` x a random replacement; "
    "(replace_dict) maps of 1..3 entries incl. leaf_operation; (canonicalize); (excavate_ite/burrow_ite) random "
    "nested-If trees with shared and complemented conditions, asked twice (second answer from the cache) and with "
    "annotated inputs, plus Ifs whose arms have the same operator and arity and differ in one, two or all arguments "
    "(flattened three-operand nodes, extraction bounds); (ite_cases / ite_dict) case lists and switch tables of 0..40 entries with negative and "
    ">= 2^w keys; (reverse_ite_cases); (chop, get_bytes, get_byte) all indices; (identical) pairs that are / are "
    "not renamings.  Oracle: Z3 equivalence (private context) between claripy's translation of the utility's output "
    "and a specification term built independently from the descriptors; structural side conditions (no remaining "
    "`old`, injective sort-preserving canonical map, pairwise exclusive and jointly valid reverse cases, chunk "
    "widths).  identical()==True is judged by padding the two variable sets with fresh names per sort and trying "
    "every sort-preserving bijection (<= 5 padded variables, else counted as not judged); False and a call that "
    "raises are never judged.  Non-trivial: the input contains an operator node; distinct by (utility, descriptor) hash."
    " Session 4: fp-valued ite_cases/ite_dict (two zeros, NaN, infinities), canonicalize over annotated occurrences and over expressions that already contain canonical names (one name per variable)."
)
ASSUMPTIONS = ["z3 decides the QF_BV equivalences within the timeout; timeouts fall back to sampling and are counted"]


def floors(tier):
    return {"judged:replace": 200, "judged:replace_dict": 100, "judged:canonicalize": 100, "judged:excavate": 150, "judged:burrow": 150, "judged:ite_cases": 100, "judged:ite_dict": 100, "judged:reverse_ite_cases": 50, "judged:chop": 50, "judged:get_bytes": 100, "judged:identical_true": 20, "ite_reloc_same_op_arms": 40}


KINDS = ["replace", "replace_dict", "canonicalize", "ite_reloc", "ite_cases", "ite_dict", "reverse", "chop_bytes", "identical"]


def plan(tier, seed):
    q = tier == "quick"
    S = []
    for k in KINDS:
        for i in range(2 if q else 6):
            S.append({"kind": k, "stream": i, "n": 150 if q else 1500})
    return S


def ifgen(rng, w, depth, conds, g):
    """nested-If trees over a small pool of conditions (shared and complemented)"""
    if depth <= 0 or rng.random() < 0.2:
        return g.bv(w, 1)
    k = rng.random()
    c = rng.choice(conds)
    if rng.random() < 0.3:
        c = ["bnot", c]
    if k < 0.6:
        return ["ite", c, ifgen(rng, w, depth - 1, conds, g), ifgen(rng, w, depth - 1, conds, g)]
    if k < 0.85:
        o = rng.choice(["add", "xor", "and", "sub", "mul", "or"])
        return [o, ifgen(rng, w, depth - 1, conds, g), ifgen(rng, w, depth - 1, conds, g)]
    if k < 0.93:
        return [rng.choice(["neg", "inv"]), ifgen(rng, w, depth - 1, conds, g)]
    n = rng.randrange(1, 4)
    return ["extract", w - 1, 0, [rng.choice(["zext", "sext"]), n, ifgen(rng, w, depth - 1, conds, g)]]


def same_op_arms(rng, w, conds, g):
    """If(cond, t, f) whose arms have the same operator and arity and differ in one, two or all arguments -
    the shapes burrow_ite's argument matching decides on (regression family for the fixed finding
    burrow-ite-one-match-not-one-difference: flattened three-operand nodes, extraction bounds, extraction of
    operands of different widths)."""
    c = rng.choice(conds)
    k = rng.randrange(4)
    if k == 0:
        # Extract(hi, lo, x): the arms differ in both integer bounds and share the operand
        x = g.bv(2 * w, 1)
        lo1, lo2 = rng.sample(range(w + 1), 2)
        t, f = ["extract", lo1 + w - 1, lo1, x], ["extract", lo2 + w - 1, lo2, x]
    elif k == 1:
        # zero/sign extension by different amounts of operands of different widths, then cut back
        # same bounds, operands of different widths: the arms differ in one argument but no If can choose between them
        lo = rng.choice([0, 1])
        t, f = ["extract", w - 1 + lo, lo, g.bv(w + 1, 2)], ["extract", w - 1 + lo, lo, g.bv(w + rng.choice([2, 3]), 2)]
    else:
        # flattened n-ary nodes a o b o d  vs  a o b' o d' with one, two or three differing operands
        o = rng.choice(["add", "xor", "and", "or", "mul"])
        xs = [g.bv(w, 1) for _ in range(3)]
        ys = list(xs)
        for i in rng.sample(range(3), rng.choice([1, 2, 2, 3])):
            ys[i] = g.bv(w, 1)
        t, f = [o, [o, xs[0], xs[1]], xs[2]], [o, [o, ys[0], ys[1]], ys[2]]
    return ["ite", c, t, f]


def run_shard(spec, res):
    import claripy

    from vf.gen import astwork
    from vf.gen import build as bvb
    from vf.gen import exprgen as G
    from vf.mon import sem
    from vf.ref import bvsem, z3ref

    rng = random.Random(f"{spec['seed']}:{PID}:{spec['kind']}:{spec.get('stream')}")
    tmo = 2000 if spec["tier"] == "quick" else 8000
    keep = []
    kind = spec["kind"]

    def equiv(name, d_case, T_ast, R_term, hyp=None, extra=None):
        """claripy AST T_ast must be equivalent to reference Z3 term R_term"""
        res.count("judged:" + name)
        try:
            T = sem.claripy_z3(T_ast)
        except claripy.errors.ClaripyError as e:
            res.violation({"kind": "utility", "util": name, "what": "result-not-translatable", "case": d_case, "observed": repr(e)})
            return False
        st, wit = z3ref.equivalent(T, R_term, timeout_ms=tmo, rng=rng, hyp=hyp)
        res.count("z3_status:" + st)
        if st in ("neq", "sort"):
            res.violation({"kind": "utility", "util": name, "what": "not-equivalent" if st == "neq" else "sort", "case": d_case, "assignment": wit, "result": repr(T_ast)[:300], **(extra or {})})
            return False
        return True

    def gen_tree(depth=None, widths=None, boolok=True):
        g = G.Gen(rng, nvars=rng.choice([1, 2, 3]), widths=widths or [1, 3, 4, 8, 16, 32], surface=False, allow_div=False)
        d = g.any(depth or rng.choice([2, 3, 4])) if boolok else g.bv(rng.choice(g.widths), depth or rng.choice([2, 3]))
        return g, d

    def safe_build(d):
        try:
            a = bvb.build(d)
            keep.append(a)
            return a
        except claripy.errors.ClaripyError:
            return None

    def subst_desc(d, name, nd):
        if not isinstance(d, list):
            return d
        if d[0] in ("bvs", "bools") and d[1] == name:
            return nd
        return [d[0]] + [subst_desc(x, name, nd) for x in d[1:]]

    for it in range(spec["n"]):
        d = None
        try:
            if kind == "replace":
                g, d = gen_tree()
                e = safe_build(d)
                vs = bvsem.variables(d)
                if e is None or not vs:
                    continue
                if it % 3 != 2:
                    # leaf old
                    name = rng.choice(sorted(vs))
                    srt = vs[name]
                    old_d = ["bvs", name, srt[1]] if srt[0] == "bv" else ["bools", name]
                    new_d = (g.bv(srt[1], rng.choice([0, 1, 2])) if srt[0] == "bv" else g.boolx(rng.choice([0, 1])))
                    old, new = safe_build(old_d), safe_build(new_d)
                    if new is None or isinstance(new, (int, bool)):
                        continue
                    r = claripy.replace(e, old, new)
                    keep.append(r)
                    res.case(["replace-leaf", d, name, new_d], True)
                    spec_d = subst_desc(d, name, new_d)
                    equiv("replace", [d, name, new_d], r, z3ref.term(spec_d))
                    # exactness: the old leaf no longer occurs unless the replacement contains it
                    if name in set(r.variables) and name not in bvsem.variables(new_d) and any(x.op in ("BVS", "BoolS") and x.args[0] == name for x in r.leaf_asts()):
                        res.violation({"kind": "utility", "util": "replace", "what": "old-leaf-still-present", "case": [d, name, new_d], "result": repr(r)[:300]})
                else:
                    subs = [x for x in e.children_asts() if not x.is_leaf() and isinstance(x, (claripy.ast.BV, claripy.ast.Bool))]
                    if not subs:
                        continue
                    old = rng.choice(subs)
                    new = claripy.BVS("fresh", old.length, explicit_name=True) if isinstance(old, claripy.ast.BV) else claripy.BoolS("freshb", explicit_name=True)
                    r = claripy.replace(e, old, new)
                    keep.append(r)
                    res.case(["replace-inner", d, repr(old)], True)
                    # (old == new) => r == e
                    c = z3ref.ctx()
                    hyp = [sem.claripy_z3(old) == sem.claripy_z3(new)]
                    equiv("replace", [d, repr(old)[:100]], r, sem.claripy_z3(e), hyp=hyp, extra={"old": repr(old)[:200]})
                    if any(x is old for x in r.children_asts()) or r is old:
                        res.violation({"kind": "utility", "util": "replace", "what": "old-subtree-still-present", "case": d, "old": repr(old)[:200], "result": repr(r)[:300]})
            elif kind == "replace_dict":
                g, d = gen_tree()
                if it % 6 == 1:
                    # mirrored halves: substituting in one half yields (structurally) the other, original half
                    w_ = rng.choice([4, 8, 32])
                    gm = G.Gen(rng, nvars=2, widths=[w_], surface=False, allow_div=False, closed=True, nbools=0)
                    f1 = gm.bv(w_, rng.choice([1, 2]))
                    na, nb = f"a{w_}", f"b{w_}"
                    f2 = subst_desc(subst_desc(subst_desc(f1, na, ["bvs", "#t", w_]), nb, ["bvs", na, w_]), "#t", ["bvs", nb, w_])
                    A_, B_ = ["bvs", na, w_], ["bvs", nb, w_]
                    h1 = ["lshr", A_, ["bvv", 1, w_]]
                    d = rng.choice([
                        ["ite", ["ult", A_, B_], f1, f2], ["sub", ["mul", f1, f2], f2], ["concat", f1, f2, f1], ["eq", ["sub", f1, f2], ["sub", f2, f1]],
                        ["sub", h1, ["lshr", h1, ["bvv", 1, w_]]], ["xor", ["add", A_, B_], ["add", ["add", A_, B_], B_]],
                    ])
                e = safe_build(d)
                vs = bvsem.variables(d)
                if e is None or not vs:
                    continue
                names = rng.sample(sorted(vs), min(len(vs), rng.choice([1, 2, 3])))
                mp, spec_d = {}, d
                newds = {}
                overlap = it % 3 == 1
                for name in names:
                    srt = vs[name]
                    if overlap:
                        # replacements over the replaced names themselves (a swap, x -> f(x, y)): the substitution
                        # is simultaneous, a replaced-in sub-term is not substituted again
                        same = [n for n in vs if vs[n] == srt]
                        other = rng.choice(same)
                        lf = lambda n: ["bvs", n, srt[1]] if srt[0] == "bv" else ["bools", n]  # noqa: E731
                        if srt[0] == "bv":
                            nd = rng.choice([lf(other), [rng.choice(["add", "sub", "xor", "lshr"]), lf(name), lf(other)], ["sub", lf(other), lf(name)], ["inv", lf(name)], ["lshr", lf(name), ["bvv", 1 % (1 << srt[1]), srt[1]]]])
                        else:
                            nd = rng.choice([lf(other), ["bnot", lf(name)], ["band", lf(name), lf(other)]])
                    else:
                        # replacements that do not mention replaced names
                        g2 = G.Gen(rng, nvars=2, widths=[srt[1]] if srt[0] == "bv" else [8], surface=False, allow_div=False)
                        nd = g2.bv(srt[1], 1) if srt[0] == "bv" else g2.boolx(1)
                        nd = _rename(nd, "Z")
                    newds[name] = nd
                # simultaneous substitution on the descriptor: through temporary names
                for name in newds:
                    srt = vs[name]
                    spec_d = subst_desc(spec_d, name, ["bvs", name + "#tmp", srt[1]] if srt[0] == "bv" else ["bools", name + "#tmp"])
                for name, nd in newds.items():
                    srt = vs[name]
                    old = safe_build(["bvs", name, srt[1]] if srt[0] == "bv" else ["bools", name])
                    new = safe_build(nd)
                    mp[old.hash()] = new
                    spec_d = subst_desc(spec_d, name + "#tmp", nd)
                if overlap:
                    res.count("judged:replace_dict_overlapping")
                use_leaf_op = it % 4 == 0 and not overlap
                if use_leaf_op:
                    # leaf_operation renames every leaf that is not in the map (and is not part of a replacement,
                    # whose variables end in Z)
                    def leaf_op(x):
                        if x.op == "BVS" and not x.args[0].endswith("Z"):
                            return claripy.BVS(x.args[0] + "L", x.length, explicit_name=True)
                        if x.op == "BoolS" and not x.args[0].endswith("Z"):
                            return claripy.BoolS(x.args[0] + "L", explicit_name=True)
                        return x

                    r = claripy.replace_dict(e, dict(mp), leaf_operation=leaf_op)
                    for name in vs:
                        if name not in newds:
                            srt = vs[name]
                            spec_d = subst_desc(spec_d, name, ["bvs", name + "L", srt[1]] if srt[0] == "bv" else ["bools", name + "L"])
                else:
                    r = claripy.replace_dict(e, dict(mp))
                keep.append(r)
                res.case(["replace_dict", d, sorted(newds.items()), use_leaf_op], True)
                equiv("replace_dict", [d, sorted(newds.items()), use_leaf_op], r, z3ref.term(spec_d))
                if use_leaf_op:
                    res.count("judged:replace_dict_leafop")
            elif kind == "canonicalize":
                g, d = gen_tree()
                annotated = it % 3 == 0
                if annotated:
                    # the same variable with and without annotations on its occurrences is still one variable
                    try:
                        e = astwork.build_annotated(d, rng, p=0.35)
                    except claripy.errors.ClaripyError:
                        continue
                    if not isinstance(e, claripy.ast.Base):
                        continue
                    keep.append(e)
                    res.count("canonicalize_annotated_cases")
                else:
                    e = safe_build(d)
                if e is None:
                    continue
                if it % 4 == 1 and isinstance(e, claripy.ast.BV):
                    # an expression that already contains names canonicalize hands out (the result of an earlier call)
                    # next to other variables, renamed with a fresh map
                    _, _, first = e.canonicalize()
                    # (a name of its own: one name for two variables of different widths is not a use anybody makes)
                    z_ = claripy.BVS(rng.choice(["zz", "zz", f"canonical_{100 + rng.randrange(3)}"]), e.length, explicit_name=True)
                    e = rng.choice([first * z_, z_ + first, claripy.If(z_ == 0, first, e)])
                    keep.append(e)
                    res.count("canonicalize_over_canonical_names")
                vmap, cnt, canon = e.canonicalize()
                keep.append(canon)
                res.case(["canonicalize", d, annotated], True)
                res.count("judged:canonicalize")
                # (the variables that occur, by traversal: .variables may list more - C05 - e.g. the a of (b ^ 14 ^ a) ^ a)
                occ = lambda t: {x.args[0] for x in t.leaf_asts() if x.op in ("BVS", "BoolS", "FPS", "StringS")}  # noqa: E731
                if len(occ(canon)) != len(occ(e)):
                    res.violation({"kind": "utility", "util": "canonicalize", "what": "renaming-not-consistent", "case": d, "annotated": annotated, "expr": repr(e)[:200], "result": repr(canon)[:200], "variables_before": sorted(occ(e)), "variables_after": sorted(occ(canon))})
                    continue
                # map: injective, sort preserving, covers every variable leaf
                leaves = {x.hash(): x for x in e.leaf_asts() if x.symbolic}
                targets = []
                bad = None
                for h, x in leaves.items():
                    t = vmap.get(h)
                    if t is None:
                        bad = f"leaf {x!r} not mapped"
                        break
                    if type(t) is not type(x) or t.length != x.length or t.op != x.op:
                        bad = f"leaf {x!r} mapped to different sort {t!r}"
                        break
                    targets.append(t.hash())
                if bad is None and len(set(targets)) != len(targets):
                    bad = "map not injective"
                if bad:
                    res.violation({"kind": "utility", "util": "canonicalize", "what": bad, "case": d})
                    continue
                # canon == e with variables renamed: substitute back in Z3
                T = sem.claripy_z3(canon)
                R = sem.claripy_z3(e)
                import z3

                subs = [(sem.claripy_z3(t), sem.claripy_z3(leaves[h])) for h, t in vmap.items() if h in leaves]
                Tb = z3.substitute(T, *subs) if subs else T
                st, wit = z3ref.equivalent(Tb, R, timeout_ms=tmo, rng=rng)
                res.count("z3_status:" + st)
                if st in ("neq", "sort"):
                    res.violation({"kind": "utility", "util": "canonicalize", "what": "not-equivalent-under-map", "case": d, "result": repr(canon)[:300], "assignment": wit})
                if not all(v.startswith("canonical_") for v in occ(canon)):
                    res.violation({"kind": "utility", "util": "canonicalize", "what": "uncanonical-variable-left", "case": d, "observed": sorted(occ(canon))})
            elif kind == "ite_reloc":
                w = rng.choice([1, 4, 8, 32])
                g = G.Gen(rng, nvars=2, widths=[w], surface=False, allow_div=False)
                conds = [g.boolx(1) for _ in range(rng.choice([1, 2, 3]))]
                d = ifgen(rng, w, rng.choice([2, 3, 4, 5]), conds, g)
                if it % 4 == 3:
                    d = same_op_arms(rng, w, conds, g)
                    res.count("ite_reloc_same_op_arms")
                    if rng.random() < 0.3:
                        d = [rng.choice(["add", "xor"]), d, ifgen(rng, w, 2, conds, g)]
                if rng.random() < 0.3:
                    d = [rng.choice(G.CMP_ALL), d, ifgen(rng, w, 2, conds, g)]
                annotated = it % 5 == 0
                try:
                    e = astwork.build_annotated(d, rng, p=0.2) if annotated else bvb.build(d)
                except claripy.errors.ClaripyError:
                    continue
                keep.append(e)
                R = z3ref.term(d)
                for name, fn in (("excavate", claripy.excavate_ite), ("burrow", claripy.burrow_ite)):
                    r1 = fn(e)
                    r2 = fn(e)  # served from the cache
                    r3 = fn(r1)
                    keep += [r1, r2, r3]
                    res.case([name, d, annotated], True)
                    equiv(name, d, r1, R)
                    if r2 is not r1:
                        equiv(name, d, r2, R, extra={"second_call": True})
                    equiv(name, d, r3, R, extra={"applied_twice": True})
            elif kind in ("ite_cases", "ite_dict") and it % 5 == 4:
                # floating-point arms: the two zeros, NaN, infinities and variables (IEEE-equal is not the same value)
                from vf.gen import fpbuild
                from vf.ref import fpref

                S = rng.choice(["D", "F"])
                nb = fpref.nbits(S)
                specials = [0, 1 << (nb - 1), ((1 << (nb - 1)) - 1) & ~((1 << (nb - 1 - (11 if S == "D" else 8))) - 1), 1, rng.getrandbits(nb)]
                specials.append((0x7FF8 << 48) if S == "D" else (0x7FC0 << 16))

                def fval():
                    return ["fps", "x" + S, S] if rng.random() < 0.2 else ["fpv", rng.choice(specials), S]

                g = G.Gen(rng, nvars=2, widths=[4], surface=False, allow_div=False)
                n = rng.choice([1, 2, 3, 5])
                default_d = fval()
                if kind == "ite_cases":
                    conds_d = [g.boolx(rng.choice([0, 1])) for _ in range(n)]
                    vals_d = [fval() for _ in range(n)]
                    try:
                        r = claripy.ite_cases([(bvb.build(c), fpbuild.build(v)) for c, v in zip(conds_d, vals_d)], fpbuild.build(default_d))
                    except claripy.errors.ClaripyError:
                        continue
                else:
                    idx_d = ["bvs", "i4", 4]
                    keys = rng.sample(range(16), rng.choice([1, 2, 3, 5, 8]))
                    conds_d = [["eq", idx_d, ["bvv", kk, 4]] for kk in keys]
                    vals_d = [fval() for _ in keys]
                    try:
                        r = claripy.ite_dict(bvb.build(idx_d), {kk: fpbuild.build(v) for kk, v in zip(keys, vals_d)}, fpbuild.build(default_d))
                    except claripy.errors.ClaripyError:
                        continue
                keep.append(r)
                spec_d = default_d
                for c, v in reversed(list(zip(conds_d, vals_d))):
                    spec_d = ["ite", c, v, spec_d]
                res.case([kind + "-fp", conds_d, vals_d, default_d], True)
                res.count("fp_valued_switches")
                equiv(kind, [conds_d, vals_d, default_d], r, fpref.term(spec_d), extra={"values": "fp"})
            elif kind == "ite_cases":
                w = rng.choice([1, 3, 8, 32])
                g = G.Gen(rng, nvars=2, widths=[w], surface=False, allow_div=False)
                n = rng.choice([0, 1, 2, 3, 5, 8])
                boolvals = rng.random() < 0.2
                cases_d = []
                for _ in range(n):
                    c = g.boolx(rng.choice([0, 1, 2]))
                    v = g.boolx(1) if boolvals else rng.choice([g.bv(w, 1), ["bvv", rng.getrandbits(w), w]])
                    cases_d.append((c, v))
                if n >= 2 and rng.random() < 0.3:
                    cases_d[1] = (cases_d[1][0], cases_d[0][1])  # equal neighbouring values
                default_d = g.boolx(1) if boolvals else rng.choice([g.bv(w, 1), ["bvv", rng.getrandbits(w), w]])
                if n and rng.random() < 0.3:
                    default_d = cases_d[-1][1]
                try:
                    cases = [(bvb.build(c), bvb.build(v)) for c, v in cases_d]
                    default = bvb.build(default_d)
                    r = claripy.ite_cases(cases, default)
                except claripy.errors.ClaripyError:
                    continue
                keep.append(r)
                spec_d = default_d
                for c, v in reversed(cases_d):
                    spec_d = ["ite", c, v, spec_d]
                res.case(["ite_cases", cases_d, default_d], True)
                equiv("ite_cases", [cases_d, default_d], r, z3ref.term(spec_d))
            elif kind == "ite_dict":
                w = rng.choice([2, 3, 4, 8, 16])
                g = G.Gen(rng, nvars=2, widths=[w], surface=False, allow_div=False)
                n = rng.choice([0, 1, 3, 4, 5, 7, 8, 16, 40])
                n = min(n, 1 << w)
                keyspace = list(range(1 << w)) if w <= 8 else [rng.getrandbits(w) for _ in range(4 * n + 4)]
                keys = rng.sample(sorted(set(keyspace)), min(n, len(set(keyspace))))
                style = rng.choice(["plain", "plain", "negative", "large"])
                pykeys = []
                for kk in keys:
                    if style == "negative" and rng.random() < 0.5:
                        pykeys.append(kk - (1 << w))
                    elif style == "large" and rng.random() < 0.3:
                        pykeys.append(kk + (1 << w))
                    else:
                        pykeys.append(kk)
                idx_d = rng.choice([["bvs", f"i{w}", w], g.bv(w, 1)])
                vals_d = [rng.choice([["bvv", rng.getrandbits(8), 8], ["bvs", "a8", 8]]) for _ in keys]
                default_d = ["bvv", rng.getrandbits(8), 8]
                try:
                    idx = bvb.build(idx_d)
                    table = {pk: bvb.build(v) for pk, v in zip(pykeys, vals_d)}
                    r = claripy.ite_dict(idx, table, bvb.build(default_d))
                except claripy.errors.ClaripyError as e:
                    res.count("ite_dict_raised:" + type(e).__name__)
                    continue
                keep.append(r)
                spec_d = default_d
                for kk, v in reversed(list(zip(keys, vals_d))):
                    spec_d = ["ite", ["eq", idx_d, ["bvv", kk, w]], v, spec_d]
                res.case(["ite_dict", idx_d, pykeys, vals_d, default_d], True)
                res.count("ite_dict_style:" + style)
                equiv("ite_dict", [idx_d, pykeys, vals_d, default_d], r, z3ref.term(spec_d), extra={"key_style": style, "n": len(keys)})
            elif kind == "reverse":
                import z3

                w = rng.choice([1, 4, 8])
                g = G.Gen(rng, nvars=2, widths=[w], surface=False, allow_div=False)
                conds = [g.boolx(1) for _ in range(rng.choice([1, 2, 3]))]
                d = ifgen(rng, w, rng.choice([1, 2, 3, 4]), conds, g)
                e = safe_build(d)
                if e is None:
                    continue
                pairs = list(claripy.reverse_ite_cases(e))
                keep += [p for pr in pairs for p in pr]
                res.case(["reverse_ite_cases", d], True)
                res.count("judged:reverse_ite_cases")
                E = sem.claripy_z3(e)
                Cs = [sem.claripy_z3(c) for c, _ in pairs]
                Vs = [sem.claripy_z3(v) for _, v in pairs]
                ok, wit = z3ref.is_valid(z3.Or(*Cs) if len(Cs) > 1 else Cs[0], timeout_ms=tmo)
                if ok is False:
                    res.violation({"kind": "utility", "util": "reverse_ite_cases", "what": "conditions-not-exhaustive", "case": d, "assignment": wit})
                for i, (c, v) in enumerate(zip(Cs, Vs)):
                    ok, wit = z3ref.is_valid(z3.Implies(c, E == v), timeout_ms=tmo)
                    if ok is False:
                        res.violation({"kind": "utility", "util": "reverse_ite_cases", "what": "condition-does-not-imply-value", "case": d, "assignment": wit, "pair": [repr(pairs[i][0])[:150], repr(pairs[i][1])[:150]]})
                        break
                for (i, a), (j, b) in itertools.combinations(enumerate(Cs), 2):
                    sat, _m = z3ref.is_sat([a, b], timeout_ms=tmo)
                    if sat is True:
                        res.violation({"kind": "utility", "util": "reverse_ite_cases", "what": "conditions-overlap", "case": d, "pair": [repr(pairs[i][0])[:150], repr(pairs[j][0])[:150]]})
                        break
            elif kind == "chop_bytes":
                w = rng.choice([1, 2, 8, 12, 16, 24, 32, 33, 64, 7, 9])
                g = G.Gen(rng, nvars=2, widths=[w], surface=False, allow_div=False)
                d = g.bv(w, rng.choice([0, 1, 2]))
                e = safe_build(d)
                if e is None or isinstance(e, int):
                    continue
                R = z3ref.term(d)
                import z3

                for bits in [b for b in (1, 2, 3, 4, 8, 16, w) if w % b == 0]:
                    parts = e.chop(bits)
                    keep += parts
                    res.case(["chop", d, bits], True)
                    if any(p.length != bits for p in parts) or len(parts) != w // bits:
                        res.violation({"kind": "utility", "util": "chop", "what": "wrong-chunk-widths", "case": [d, bits], "observed": [p.length for p in parts]})
                        continue
                    whole = claripy.Concat(*parts) if len(parts) > 1 else parts[0]
                    equiv("chop", [d, bits], whole, R)
                    # each chunk individually: most significant first
                    j = rng.randrange(len(parts))
                    hi = w - 1 - j * bits
                    equiv("chop", [d, bits, j], parts[j], z3.Extract(hi, hi - bits + 1, R))
                nbytes = (w + 7) // 8
                padded = z3.ZeroExt(nbytes * 8 - w, R) if nbytes * 8 != w else R
                for idx in range(nbytes):
                    for size in range(0, nbytes - idx + 1):
                        if size == 0:
                            r = e.get_bytes(idx, 0)
                            if r.length != 0:
                                res.violation({"kind": "utility", "util": "get_bytes", "what": "size-0-not-empty", "case": [d, idx]})
                            continue
                        if rng.random() < 0.5 and size > 1:
                            continue
                        r = e.get_bytes(idx, size)
                        keep.append(r)
                        res.case(["get_bytes", d, idx, size], True)
                        hi = nbytes * 8 - 1 - idx * 8
                        lo = hi - size * 8 + 1
                        want = z3.Extract(hi, lo, padded)
                        if r.length != size * 8:
                            res.violation({"kind": "utility", "util": "get_bytes", "what": "wrong-width", "case": [d, idx, size], "observed": r.length})
                            continue
                        equiv("get_bytes", [d, idx, size], r, want)
                    rb = e.get_byte(idx)
                    equiv("get_bytes", [d, idx, "get_byte"], rb, z3.Extract(nbytes * 8 - 1 - idx * 8, nbytes * 8 - 8 - idx * 8, padded))
            elif kind == "identical":
                g, d = gen_tree(depth=rng.choice([1, 2, 3]), widths=[1, 4, 8])
                a = safe_build(d)
                if a is None:
                    continue
                mode = it % 4
                if mode == 0:
                    d2 = _rename(d, "R")  # a consistent renaming: should be identical
                elif mode == 1:
                    d2 = _rename_partial(d, rng)  # merges or splits variables
                elif mode == 2:
                    g2, d2 = gen_tree(depth=rng.choice([1, 2]), widths=[1, 4, 8])
                else:
                    d2 = _perturb(d, rng)
                b = safe_build(d2)
                if b is None or type(a) is not type(b):
                    continue
                try:
                    ans = a.identical(b)
                except Exception as e:  # noqa: BLE001
                    # the property constrains the answer True only; a call that raises gives no answer.  (BV.identical
                    # converts both sides with the VSA backend, which raises on several well-formed expressions, e.g.
                    # AttributeError in BackendVSA.If when a Boolean != over two BoolResults came back as a Python
                    # bool - DESIGN.md section 7, C13/C24/C25 entry.)  Counted, with the distinct messages in evidence.
                    res.count("identical_raised:" + type(e).__name__)
                    res.setadd("identical_exceptions", f"{type(e).__name__}: {e}"[:160])
                    continue
                res.case(["identical", d, d2], True)
                res.count("identical_answer:" + str(ans))
                if ans is True:
                    verdict = _renaming_equiv(d, d2, tmo, rng)
                    if verdict is None:
                        res.count("identical_true_not_judged:too_many_variables")
                        continue
                    res.count("judged:identical_true")
                    if not verdict:
                        res.violation({"kind": "utility", "util": "identical", "what": "claimed-identical-but-no-renaming-makes-them-equal", "case": [d, d2]})
        except claripy.errors.ClaripyZeroDivisionError:
            res.count("div0")
        except Exception as e:  # noqa: BLE001
            res.violation({"kind": "utility", "util": kind, "what": "exception", "case": d, "observed": repr(e), "tb": traceback.format_exc()[-1800:]})
        if len(keep) > 3000:
            del keep[:1500]


def _rename(d, suffix):
    if not isinstance(d, list):
        return d
    if d[0] == "bvs":
        return ["bvs", d[1] + suffix, d[2]]
    if d[0] == "bools":
        return ["bools", d[1] + suffix]
    return [d[0]] + [_rename(x, suffix) for x in d[1:]]


def _rename_partial(d, rng):
    """rename so that two distinct variables of equal sort collapse (not a bijection) when possible"""
    from vf.ref import bvsem

    vs = bvsem.variables(d)
    by_sort = {}
    for n, s in vs.items():
        by_sort.setdefault(s, []).append(n)
    groups = [v for v in by_sort.values() if len(v) >= 2]
    if not groups:
        return _rename(d, "Q")
    a, b = rng.sample(groups[0], 2)

    def go(x):
        if not isinstance(x, list):
            return x
        if x[0] in ("bvs", "bools") and x[1] == a:
            return [x[0], b, *x[2:]]
        return [x[0]] + [go(y) for y in x[1:]]

    return go(d)


def _perturb(d, rng):
    """change one constant or operator"""
    import copy

    d = copy.deepcopy(d)
    nodes = []

    def walk(x):
        if isinstance(x, list):
            nodes.append(x)
            for y in x[1:]:
                walk(y)

    walk(d)
    cands = [n for n in nodes if n[0] == "bvv"]
    if cands:
        n = rng.choice(cands)
        n[1] = (n[1] + 1) % (1 << n[2]) if n[2] else 0
    return d


def _renaming_equiv(d1, d2, tmo, rng):
    """Is there a consistent (sort-preserving, injective) renaming of variables making d1 == d2 valid?

    The descriptors may mention variables the built expressions no longer contain (claripy folds `r & q & False`
    to False while building) or that the value does not depend on, so the two variable sets need not have the
    same size: each side is padded with fresh names per sort and every sort-preserving bijection of the padded
    sets is tried.  Returns None when the search is too large to decide (not judged)."""
    from vf.ref import bvsem, z3ref

    v1, v2 = bvsem.variables(d1), bvsem.variables(d2)
    if bvsem.is_bool(d1) != bvsem.is_bool(d2):
        return False
    if not bvsem.is_bool(d1) and bvsem.width(d1) != bvsem.width(d2):
        return False
    n1, n2 = sorted(v1), sorted(v2)
    v1, v2 = dict(v1), dict(v2)
    for srt in sorted(set(v1.values()) | set(v2.values()), key=repr):
        c1 = sum(1 for x in n1 if v1[x] == srt)
        c2 = sum(1 for x in n2 if v2[x] == srt)
        for k in range(abs(c1 - c2)):
            nm = f"__pad{len(n1) + len(n2)}_{k}"
            if c1 < c2:
                n1.append(nm)
                v1[nm] = srt
            else:
                n2.append(nm)
                v2[nm] = srt
    if len(n1) > 5:
        return None  # not judged beyond 5 (padded) variables
    T1 = z3ref.term(d1)
    # the identity on shared names first (the common case), then every other bijection
    perms = sorted(itertools.permutations(n2), key=lambda perm: -sum(1 for a, b in zip(n1, perm) if a == b))
    for perm in perms:
        if any(v1[a] != v2[b] for a, b in zip(n1, perm)):
            continue
        mapping = dict(zip(perm, n1))

        def ren(x):
            if not isinstance(x, list):
                return x
            if x[0] in ("bvs", "bools"):
                return [x[0], mapping.get(x[1], x[1]), *x[2:]]
            return [x[0]] + [ren(y) for y in x[1:]]

        T2 = z3ref.term(ren(d2))
        st, _ = z3ref.equivalent(T1, T2, timeout_ms=tmo, rng=rng)
        if st in ("eq", "sampled"):
            return True
    return False


def K_bv_identical_answers_from_vsa(w):
    """BV.identical() returns the VSA backend's verdict on the two abstract values; unconstrained expressions
    are both TOP, hence 'identical'.  Holds exactly when both are bitvectors and the VSA verdict is True."""
    import claripy

    from vf.gen import build as bvb

    if w.get("util") != "identical" or w.get("what") != "claimed-identical-but-no-renaming-makes-them-equal":
        return False
    a, b = bvb.build(w["case"][0]), bvb.build(w["case"][1])
    if not (isinstance(a, claripy.ast.BV) and isinstance(b, claripy.ast.BV)):
        return False
    try:
        return claripy.backends.vsa.convert(a).identical(claripy.backends.vsa.convert(b)) is True
    except claripy.errors.BackendError:
        return False


def replay(w, res):
    res.inconc("C08 replay: re-run the shard with --only <kind> (witness records the descriptors)")
