"""C13 — replacement and hybrid solvers are exact; approximate modes over-approximate."""
from __future__ import annotations

import random

PID = "C13"
LEVEL = "exploration"
RULE = (
    "a case is one history (the C11 step alphabet: add / satisfiable / eval / batch_eval / min / max / solution / "
    "is_true / is_false / simplify / downsize / branch, queries with and without extra constraints) on a real "
    "SolverReplacement with its default settings, a SolverHybrid queried with exact=None and exact=True (exact "
    "configurations, judged like C11: every answer must equal the stateless reference's), or on a SolverHybrid "
    "queried with exact=False, a SolverVSA and a SolverReplacement(SolverVSA(), complex_auto_replace=True, "
    "replace_constraints=True) (approximate configurations, judged by containment: satisfiable must not be False "
    "and UnsatError must not be raised when the reference has a model, eval returning fewer than n values must list "
    "every feasible value, min/max must bound the feasible values in the requested signedness, solution must not be "
    "False for a feasible value, is_true/is_false must not claim what a model refutes).  In the approximate "
    "configurations each variable optionally carries a strided-interval annotation, which the reference reads as a "
    "declared range (membership constraints only the reference sees).  Alphabets are built so that equalities "
    "arrive before and after other constraints on the same variable (the replacement map's blind spot), with "
    "Not(b)/b pairs and y+1 == k forms.  Reference: exact model set by enumeration (<= 13 variable bits).  "
    "Non-trivial: at least one add and one judged query; distinct by history hash."
)
ASSUMPTIONS = [
    "same scoping as C11 for unsatisfiable stores and variable-free expressions",
    "an SI annotation declares the variable's range; un-annotated variables range over everything",
    "an approximate frontend that raises a claripy error instead of answering excludes nothing (counted, not judged)",
]

EXACT = ["replacement", "hybrid-none", "hybrid-true"]
APPROX = ["hybrid-false", "vsa", "replacement-vsa"]


def floors(tier):
    q = tier == "quick"
    return {"answers_judged": 4000 if q else 60000, "histories": 300, "judged:exact": 1500 if q else 25000, "judged:approx": 1500 if q else 25000, "annotated_histories": 50 if q else 800, "replacements_seen": 100 if q else 1500}


def plan(tier, seed):
    q = tier == "quick"
    S = []
    for cfgname in EXACT + APPROX:
        for i in range(2 if q else 6):
            S.append({"kind": "rand", "cfg": cfgname, "stream": i, "n": 120 if q else 800, "env": {"REUSE_Z3_SOLVER": str(i % 2)}})
    return S


def make_solver(cfgname):
    import claripy

    if cfgname == "replacement":
        return claripy.SolverReplacement()
    if cfgname.startswith("hybrid"):
        return claripy.SolverHybrid()
    if cfgname == "vsa":
        return claripy.SolverVSA()
    if cfgname == "replacement-vsa":
        return claripy.SolverReplacement(claripy.SolverVSA(), complex_auto_replace=True, replace_constraints=True)
    raise ValueError(cfgname)


def membership(name, w, t):
    """descriptor constraint: the variable is a member of the interval (stride, lb, ub)"""
    x = ["bvs", name, w]
    _bits, stride, lb, ub, _e, _r = t
    m = (1 << w) - 1
    if stride == 0 or lb == ub:
        return ["eq", x, ["bvv", lb, w]]
    d = ["sub", x, ["bvv", lb, w]]
    c = ["ule", d, ["bvv", (ub - lb) & m, w]]
    if stride > 1:
        c = ["band", c, ["eq", ["urem", d, ["bvv", stride, w]], ["bvv", 0, w]]]
    return c


def biased_history(rng, al, length):
    """C11 histories with extra weight on the shapes the replacement map reacts to"""
    from vf.gen import histories as H

    _, steps = H.history(rng, length=length, al=al, p_branch=0.06)
    x = al.v()
    extra = []
    k = al.k()
    shapes = [
        [{"op": "add", "s": 0, "cons": [[rng.choice(["ugt", "ult", "ne", "sge"]), x, al.k()]]}, {"op": "add", "s": 0, "cons": [["eq", x, k]]}],
        [{"op": "add", "s": 0, "cons": [["eq", x, k]]}, {"op": "add", "s": 0, "cons": [[rng.choice(["ugt", "ult", "ne"]), x, al.k()]]}],
        [{"op": "add", "s": 0, "cons": [["eq", ["add", x, ["bvv", 1, al.w]], k]]}],
        [{"op": "add", "s": 0, "cons": [["eq", k, x]]}, {"op": "add", "s": 0, "cons": [["eq", x, al.k()]]}],
        [{"op": "add", "s": 0, "cons": [["bnot", ["ult", x, k]]]}, {"op": "add", "s": 0, "cons": [["ult", x, k]]}],
        [{"op": "add", "s": 0, "cons": [["ule", ["add", x, al.k()], al.k()]]}],
        [{"op": "add", "s": 0, "cons": [["ule", x, k]]}, {"op": "add", "s": 0, "cons": [["uge", x, al.k()]]}],
    ]
    for sh in rng.sample(shapes, rng.choice([1, 2, 2])):
        extra += sh
    if rng.random() < 0.5 and al.nvars >= 2:
        # a condition first added with an annotation, then again bare in one batch with an equality that pins a variable
        # (duplicates are dropped from the batch; what is recorded and what is replaced must stay paired)
        z = al.v(1)
        cond = [rng.choice(["ugt", "ult", "ne"]), x, al.k()]
        extra += [
            {"op": "add", "s": 0, "cons": [["eq", z, ["add", x, ["bvv", 1, al.w]]]]},
            {"op": "add", "s": 0, "cons": [cond], "ann": [0]},
            {"op": "add", "s": 0, "cons": [cond, ["eq", x, k]] if rng.random() < 0.85 else [["eq", x, k], cond]},
            {"op": "eval", "s": 0, "e": z, "n": 5, "extra": []},
            {"op": "max", "s": 0, "e": z, "signed": False, "extra": []},
            {"op": "satisfiable", "s": 0, "extra": []},
        ]
    if rng.random() < 0.25:
        # a variable pinned to a constant (it gets replaced), a contradiction somewhere else, and questions in which the
        # pinned variable is the *value* asked about, or in which everything asked about is replaced away
        y = al.v(1 % al.nvars)
        m_ = (1 << al.w) - 1
        extra += [
            {"op": "add", "s": 0, "cons": [["eq", x, k]]},
            {"op": "add", "s": 0, "cons": [["ugt", y, ["bvv", m_ - 1, al.w]] if rng.random() < 0.5 else ["ult", y, ["bvv", 1, al.w]]]},
            {"op": "add", "s": 0, "cons": [["ult", y, ["bvv", 2, al.w]] if rng.random() < 0.5 else ["ne", y, ["bvv", 0, al.w]]]},
            {"op": "solution", "s": 0, "e": k, "v": x, "extra": []},
            {"op": "solution", "s": 0, "e": x, "v": k[1], "extra": []},
            {"op": "solution", "s": 0, "e": ["add", x, ["bvv", 1, al.w]], "v": x, "extra": []},
            {"op": "satisfiable", "s": 0, "extra": []},
        ]
    if rng.random() < 0.3:
        # a serialisation round trip somewhere in the middle: the restored solver must carry on identically
        extra.append({"op": "pickle", "s": 0})
    # splice the directed adds in at random places, keeping their order
    pos = sorted(rng.randrange(0, len(steps) + 1) for _ in extra)
    for off, (p, st) in enumerate(zip(pos, extra)):
        steps.insert(p + off, st)
    return steps


def run_shard(spec, res):
    import claripy

    from vf.gen import histories as H
    from vf.props import c11, c24

    cfgname = spec["cfg"]
    rng = random.Random(f"{spec['seed']}:{PID}:{cfgname}:{spec.get('stream')}")
    exact = cfgname in EXACT
    qkw = {"hybrid-true": {"exact": True}, "hybrid-false": {"exact": False}}.get(cfgname, {})
    keep = []
    for i in range(spec["n"]):
        al = H.Alphabet(rng, allow_div=False, nbools=(1 if (exact and rng.random() < 0.3) else 0))
        steps = biased_history(rng, al, rng.choice([5, 8, 12, 20]))
        anns, ref_cons, annotate = {}, [], None
        al_vars = al.vars
        if not exact and rng.random() < 0.5:
            # claripy identifies a variable by its name and keeps one annotation tuple per name (the Z3 backend puts
            # it back on the variable when a term is abstracted, e.g. by simplify()): a name stands for one declared
            # range per process, so annotated histories get names of their own
            import json

            tag = f"h{spec.get('stream')}x{i}"
            txt = json.dumps(steps)
            al_vars = {}
            for name, sort in al.vars.items():
                txt = txt.replace(f'"{name}"', f'"{name}{tag}"')
                al_vars[name + tag] = sort
            steps = json.loads(txt)
            for name, sort in al_vars.items():
                if sort[0] == "bv" and rng.random() < 0.7:
                    t = c24.rand_ann(rng, sort[1])
                    if t is not None:
                        anns[name] = (sort[1], t)
                        ref_cons.append(membership(name, sort[1], t))
            if anns:
                annotate = lambda a, anns=anns: c24.annotate(a, anns)  # noqa: E731
                res.count("annotated_histories")
                # what-if queries the abstract domain can refute outright (a value outside a declared range), each
                # followed by the same questions without the extra constraint: nothing of the what-if may stay behind
                from vf.ref import sigamma as SG

                for name, (w_, t) in list(anns.items())[:2]:
                    outside = [v for v in range(1 << w_) if not SG.member(t, v)]
                    if not outside:
                        continue
                    x_ = ["bvs", name, w_]
                    v = rng.choice(outside)
                    what_if = rng.choice([[["eq", x_, ["bvv", v, w_]]], [["eq", x_, ["bvv", v, w_]], ["ule", x_, ["bvv", (1 << w_) - 1, w_]]]])
                    if t[2] <= t[3] and t[3] < (1 << w_) - 1 and rng.random() < 0.5:
                        what_if = [["ugt", x_, ["bvv", t[3], w_]]]
                    pos = rng.randrange(0, len(steps) + 1)
                    probe = [
                        {"op": rng.choice(["satisfiable", "satisfiable", "solution", "eval"]), "s": 0, "extra": what_if, "e": x_, "n": 3, "v": v},
                        {"op": "satisfiable", "s": 0, "extra": []},
                        {"op": "eval", "s": 0, "e": x_, "n": 70, "extra": []},
                        {"op": "max", "s": 0, "e": x_, "signed": False, "extra": []},
                    ]
                    steps[pos:pos] = probe
                    res.count("refutable_what_if_probes")
        cfg = {"cls": cfgname, "reuse": int(spec["env"]["REUSE_Z3_SOLVER"]), "annotations": {n: list(t) for n, (w, t) in anns.items()}}
        before = res.counters.get("answers_judged", 0)
        run = c11.run_history(res, al_vars, steps, lambda: make_solver(cfgname), cfg, keep, mode="exact" if exact else "approx", pid=PID, qkw=qkw, annotate=annotate, ref_cons=ref_cons)
        res.count("judged:exact" if exact else "judged:approx", res.counters.get("answers_judged", 0) - before)
        for lv in run.live:
            s = lv.solver
            r = getattr(s, "_replacements", None)
            if r is None and hasattr(s, "_approximate_frontend"):
                r = getattr(s._approximate_frontend, "_replacements", None)
            if r:
                res.count("replacements_seen", len(r))
        del keep[:]


def replay(w, res):
    res.inconc("C13 replay: use /verif/vf/core/shrink.py on the witness")
