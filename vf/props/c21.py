"""C21 — strided-interval transfer functions are sound."""
from __future__ import annotations

import itertools
import random
import traceback

PID = "C21"
LEVEL = "exploration"
RULE = (
    "a case is one application of a transfer function of the real StridedInterval class (invoked through the Python "
    "operators / methods the VSA backend itself uses: + - * // sdiv % -x ~x & | ^ << LShR >> zero_extend sign_extend "
    "extract concat ULT..SGE == !=) to operand objects built from (bits, stride, lower, upper) tuples.  Monitor: the "
    "result object's four stored numbers are read back and concretised by vf/ref/sigamma.py (gamma computed from the "
    "numbers, never through eval/solution); oracle: for every pair of members (a, b) of the operands' concretisations "
    "the SMT-LIB result op(a, b) must be a member of gamma(result); for comparisons the BoolResult must admit every "
    "truth value that occurs.  Exempt: member pairs with divisor 0; reversed non-singletons are never generated.  "
    "Workload: every well-formed operand pair at widths 1..3 (well-formed: stride 0 iff singleton, otherwise "
    "1 <= stride <= span and the upper bound on the progression), width 4 (quick: every unary application and a seeded "
    "1/12 of the square, thorough: the full square), width 5 (thorough: seeded 1/40), random boundary-biased "
    "operands at 8/16/32/64 bits judged on boundary-biased member samples (membership is arithmetic), shifts by "
    "integer and by interval amounts, all extract positions, all extension lengths, concat at mixed widths, reversed "
    "singletons at 16/32 bits.  An exception raised by an operation decides nothing (counted, listed).  "
    "Non-trivial: at least one operand is not a singleton; distinct by (op, operand tuples) hash."
)
ASSUMPTIONS = [
    "gamma of an interval whose upper bound is not on the progression is the progression clipped at the upper bound (what StridedInterval.eval/_ssplit implement)",
    "shift amounts >= width give 0 (bvshl/bvlshr) or the sign fill (bvashr), as in claripy's concrete and Z3 backends",
]

W = {1: 2, 2: 4}


def floors(tier):
    q = tier == "quick"
    return {"judged": 10**6 if q else 10**7, "judged:wide": 20000 if q else 400000, "judged:rev": 1000, "judged:reuse": 3000, "member_pairs": 10**7, "ops_seen": 30}


def plan(tier, seed):
    q = tier == "quick"
    S = [{"kind": "exh12"}]
    S += [{"kind": "exh3", "part": i, "of": 12} for i in range(12)]
    # width 4: quick = every unary op + binary ops against a seeded 1/12 sample; thorough = the full square
    S += [{"kind": "exh4", "part": i, "of": 16, "frac": (1 / 12 if q else 1.0)} for i in range(16)]
    if not q:
        S += [{"kind": "exh5", "part": i, "of": 16, "frac": 1 / 40} for i in range(16)]
    S += [{"kind": "shape", "w": w} for w in ((2, 3, 4) if q else (2, 3, 4, 5))]
    S += [{"kind": "wide", "stream": i, "n": 6000 if q else 60000} for i in range(8 if q else 16)]
    S += [{"kind": "rev", "stream": i, "n": 1500 if q else 10000} for i in range(2)]
    S += [{"kind": "reuse", "stream": i, "n": 4000 if q else 40000} for i in range(2 if q else 6)]
    return S


# ------------------------------------------------------------------------------------------ oracle
def _witness(op, ts, r, missing, extra=None):
    from vf.ref import sigamma as G

    w = {"kind": "si-op", "mon": "M-si", "op": op, "operands": [list(t) for t in ts], "classes": [G.classify(t) for t in ts], "observed": list(r) if isinstance(r, tuple) else r, "missing": missing[:6]}
    if extra:
        w.update(extra)
    return w


def judge_value(res, op, ts, result, pairs, conc, tag="", extra=None):
    """result: real object; pairs: iterable of operand-member tuples; conc(*members) -> value or None (exempt)"""
    from vf.mon import vsaops as V
    from vf.ref import sigamma as G

    if result is NotImplemented or result is None or not hasattr(result, "lower_bound"):
        res.count("not_an_si_result:" + op)
        res.setadd("not_an_si_result", f"{op}:{type(result).__name__}")
        return
    rt = V.tup(result)
    missing = []
    n = 0
    for ms in pairs:
        v = conc(*ms)
        if v is None:
            continue
        n += 1
        if not G.member(rt, v):
            missing.append([list(ms), v])
            if len(missing) >= 6:
                break
    res.count("member_pairs", n)
    res.count("judged")
    res.count("judged:" + op)
    if tag:
        res.count("judged:" + tag)
    if missing:
        res.count("unsound:" + op)
        res.violation(_witness(op, ts, rt, missing, extra))


def judge_bool(res, op, ts, result, pairs, cmpname, w):
    from vf.mon import vsaops as V
    from vf.ref import bvsem

    try:
        admits = V.bool_values(result)
    except Exception:  # noqa: BLE001
        res.count("not_a_boolresult:" + op)
        return
    seen = set()
    wit = {}
    n = 0
    for a, b in pairs:
        n += 1
        v = bvsem.cmpop(cmpname, a, b, w)
        if v not in seen:
            seen.add(v)
            wit[v] = [a, b]
            if len(seen) == 2:
                break
    res.count("member_pairs", n)
    res.count("judged")
    res.count("judged:" + op)
    miss = seen - admits
    if miss:
        res.count("unsound:" + op)
        res.violation(_witness(op, ts, sorted(admits), [[wit[v], v] for v in miss]))


def apply(res, op, fn, *objs):
    try:
        return True, fn(*objs)
    except Exception as e:  # noqa: BLE001
        res.count("ops_raised")
        res.count("ops_raised:" + op)
        res.setadd("ops_raised_types", f"{op}:{type(e).__name__}:{str(e)[:60]}")
        return False, None


def do_binary(res, op, ta, tb, ga, gb, w, tag=""):
    from vf.mon import vsaops as V

    fn, conc, exempt = V.BIN[op]
    A, B = V.mk(ta), V.mk(tb)
    ok, r = apply(res, op, fn, A, B)
    if not ok:
        return

    def c(a, b):
        if exempt is not None and exempt(a, b, w):
            return None
        return conc(a, b, w)

    judge_value(res, op, (V.tup(A), V.tup(B)), r, itertools.product(ga, gb), c, tag)


def do_cmp(res, op, ta, tb, ga, gb, w):
    from vf.mon import vsaops as V

    fn, cmpname = V.CMP[op]
    A, B = V.mk(ta), V.mk(tb)
    ok, r = apply(res, op, fn, A, B)
    if ok:
        judge_bool(res, op, (V.tup(A), V.tup(B)), r, itertools.product(ga, gb), cmpname, w)


def do_unary(res, op, ta, ga, w, tag=""):
    from vf.mon import vsaops as V

    fn, conc = V.UN[op]
    A = V.mk(ta)
    ok, r = apply(res, op, fn, A)
    if ok:
        judge_value(res, op, (V.tup(A),), r, ((a,) for a in ga), lambda a: conc(a, w), tag)


def note_case(res, op, ts):
    nontrivial = any(t[1] != 0 for t in ts)
    res.case([op, *[list(t) for t in ts]], nontrivial, sample={"op": op, "operands": [list(t) for t in ts]})


# ------------------------------------------------------------------------------------------ shards
def run_pairs(res, w, sis_a, sis_b, tag):
    from vf.mon import vsaops as V
    from vf.ref import sigamma as G

    gam = {}

    def g(t):
        if t not in gam:
            gam[t] = sorted(G.gamma(t))
        return gam[t]

    for ta in sis_a:
        ga = g(ta)
        for op in V.UN:
            do_unary(res, op, ta, ga, w, tag)
            note_case(res, op, (ta,))
        for tb in sis_b:
            gb = g(tb)
            for op in V.BIN:
                do_binary(res, op, ta, tb, ga, gb, w, tag)
            for op in V.CMP:
                do_cmp(res, op, ta, tb, ga, gb, w)
            note_case(res, "binary*", (ta, tb))


def run_shard(spec, res):
    import sys

    from vf.ref import sigamma as G

    # the splitting helpers recurse; a runaway recursion should fail fast (it is counted as an exception of the
    # operation), not eat the worker's stack
    sys.setrecursionlimit(400)
    kind = spec["kind"]
    rng = random.Random(f"{spec['seed']}:{PID}:{kind}:{spec.get('stream')}:{spec.get('part')}")
    if kind == "exh12":
        for w in (1, 2):
            sis = G.all_sis(w, aligned_only=True)
            run_pairs(res, w, sis, sis, f"exh{w}")
            res.count(f"domain_size:w{w}", len(sis))
    elif kind == "exh3":
        sis = G.all_sis(3, aligned_only=True)
        mine = sis[spec["part"] :: spec["of"]]
        run_pairs(res, 3, mine, sis, "exh3")
        res.count("domain_size:w3", len(sis) if spec["part"] == 0 else 0)
    elif kind in ("exh4", "exh5"):
        w = int(kind[-1])
        sis = G.all_sis(w, aligned_only=True)
        mine = sis[spec["part"] :: spec["of"]]
        # every unary op on my share; binary ops against the whole domain or a seeded sample of it
        other = sis if spec["frac"] >= 1 else [t for t in sis if rng.random() < spec["frac"]]
        run_pairs(res, w, mine, other, kind)
        res.count(f"domain_size:w{w}", len(sis) if spec["part"] == 0 else 0)
    elif kind == "shape":
        shape_shard(spec, res, rng)
    elif kind == "wide":
        wide_shard(spec, res, rng)
    elif kind == "rev":
        rev_shard(spec, res, rng)
    elif kind == "reuse":
        reuse_shard(spec, res, rng)
    res.count("ops_seen", len([k for k in res.counters if k.startswith("judged:") and not k.startswith("judged:exh") and k != "judged:wide"]))


def shape_shard(spec, res, rng):
    """extension, extraction, concatenation, shifts by integer amounts"""
    from vf.mon import vsaops as V
    from vf.ref import bvsem
    from vf.ref import sigamma as G

    w = spec["w"]
    sis = G.all_sis(w, aligned_only=True)
    for ta in sis:
        ga = sorted(G.gamma(ta))
        A = V.mk(ta)
        tA = V.tup(A)
        for k in (1, 2, 3, 5):
            ok, r = apply(res, "zext", lambda X: X.zero_extend(w + k), V.mk(ta))
            if ok:
                judge_value(res, "zext", (tA,), r, ((a,) for a in ga), lambda a: a, extra={"new_length": w + k})
                _check_bits(res, "zext", r, w + k, tA)
            ok, r = apply(res, "sext", lambda X: X.sign_extend(w + k), V.mk(ta))
            if ok:
                judge_value(res, "sext", (tA,), r, ((a,) for a in ga), lambda a: bvsem.signed(a, w) & bvsem.mask(w + k), extra={"new_length": w + k})
                _check_bits(res, "sext", r, w + k, tA)
        for hi in range(w):
            for lo in range(hi + 1):
                ok, r = apply(res, "extract", lambda X: X.extract(hi, lo), V.mk(ta))
                if ok:
                    judge_value(res, "extract", (tA,), r, ((a,) for a in ga), lambda a: (a >> lo) & bvsem.mask(hi - lo + 1), extra={"hi": hi, "lo": lo})
                    _check_bits(res, "extract", r, hi - lo + 1, tA)
        for amt in range(0, w + 2):
            for op, inv in (("shl", lambda X: X << amt), ("lshr", lambda X: X.LShR(amt)), ("ashr", lambda X: X >> amt)):
                ok, r = apply(res, op + "_int", inv, V.mk(ta))
                if ok:
                    judge_value(res, op + "_int", (tA,), r, ((a,) for a in ga), lambda a: bvsem.bvop(op, a, amt, w), extra={"amount": amt})
        note_case(res, "shape", (ta,))
    # concat at mixed widths
    for wa in (1, 2, 3):
        for wb in (1, 2, 3):
            if max(wa, wb) > w:
                continue
            for ta in G.all_sis(wa, aligned_only=True):
                ga = sorted(G.gamma(ta))
                for tb in G.all_sis(wb, aligned_only=True):
                    gb = sorted(G.gamma(tb))
                    A, B = V.mk(ta), V.mk(tb)
                    ok, r = apply(res, "concat", lambda X, Y: X.concat(Y), A, B)
                    if ok:
                        judge_value(res, "concat", (V.tup(A), V.tup(B)), r, itertools.product(ga, gb), lambda a, b: (a << wb) | b)
                        _check_bits(res, "concat", r, wa + wb, V.tup(A))
                    note_case(res, "concat", (ta, tb))


def _check_bits(res, op, r, want, tA):
    if hasattr(r, "bits") and r.bits != want:
        res.count("unsound:" + op)
        res.violation({"kind": "si-op", "mon": "M-si", "op": op, "what": "result-width", "operands": [list(tA)], "observed": r.bits, "expected": want})


def rand_si(rng, w):
    """boundary-biased random interval at width w"""
    m = (1 << w) - 1
    k = rng.random()
    pool = [0, 1, 2, m, m - 1, 1 << (w - 1), (1 << (w - 1)) - 1, (1 << (w - 1)) + 1, w, w - 1, w + 1, 0xFF & m, 0x100 & m]
    pick = lambda: rng.choice(pool) if rng.random() < 0.45 else (rng.getrandbits(w) if rng.random() < 0.6 else rng.getrandbits(rng.randrange(1, w + 1)))
    if k < 0.18:
        v = pick()
        return (w, 0, v, v, False, False)
    if k < 0.24:
        return (w, 1, 0, m, False, False)  # TOP
    lb = pick()
    stride = rng.choice([1, 1, 1, 2, 3, 4, 5, 8, 16, 0x10, 0x100, 7, rng.getrandbits(rng.randrange(1, max(2, w // 2))) or 1])
    stride = max(1, stride & m)
    n = rng.choice([1, 2, 3, 4, 7, 8, 15, 100, 255, 256, rng.getrandbits(rng.randrange(1, w + 1))])
    n = max(1, min(n, m // stride))
    ub = (lb + n * stride) & m
    if ub == lb:
        return (w, 0, lb, lb, False, False)
    return (w, stride, lb, ub, False, False)


def wide_shard(spec, res, rng):
    from vf.mon import vsaops as V
    from vf.ref import bvsem
    from vf.ref import sigamma as G

    # machine-word widths and just below, small ranges around zero (wrapping) against small constants: quotients whose
    # pieces have bounds that differ by multiples of large powers of two
    for w in (61, 62, 63, 64, 32, 33):
        for _ in range(6 if spec["n"] < 1000 else 40):
            lo, hi = rng.randrange(1, 17), rng.randrange(0, 17)
            ta = (w, 1, (1 << w) - lo, hi, False, False)
            dv = rng.choice([1, 1, 2, 4, 8, 3])
            tb = (w, 0, dv, dv, False, False)
            ga = sorted({((1 << w) - lo + j) & bvsem.mask(w) for j in range(lo + hi + 1)})
            for op in ("udiv", "sdiv", "mod", "lshr", "and"):
                if op in V.BIN:
                    note_case(res, op, (ta, tb))
                    do_binary(res, op, ta, tb, ga, [dv], w, "wide")
                    res.count("word_width_wrapping_cases")
    for i in range(spec["n"]):
        w = rng.choice([8, 8, 16, 32, 64])
        ta, tb = rand_si(rng, w), rand_si(rng, w)
        A, B = V.mk(ta), V.mk(tb)
        tA, tB = V.tup(A), V.tup(B)
        ga, gb = G.sample_members(tA, rng), G.sample_members(tB, rng)
        op = rng.choice(list(V.BIN) + list(V.CMP) + list(V.UN) + ["zext", "sext", "extract", "concat", "shl_small", "lshr_small", "ashr_small"])
        note_case(res, op, (ta, tb))
        if op in V.BIN:
            if op in ("shl", "lshr", "ashr") and V.tup(B)[1] != 0 and G.count(tB) > 70:
                # the implementation iterates over every amount in the (clamped) range: keep ranges where that is feasible
                res.count("skipped_large_shift_range")
                continue
            do_binary(res, op, ta, tb, ga, gb, w, "wide")
        elif op in V.CMP:
            do_cmp(res, op, ta, tb, ga, gb, w)
            res.count("judged:wide")
        elif op in V.UN:
            do_unary(res, op, ta, ga, w, "wide")
        elif op in ("shl_small", "lshr_small", "ashr_small"):
            base = op.split("_")[0]
            lo = rng.randrange(0, w + 2)
            hi = min(w + 3, lo + rng.randrange(0, 6))
            tb2 = (w, 1 if hi > lo else 0, lo, hi, False, False)
            do_binary(res, base, ta, tb2, ga, sorted(G.gamma(tb2)), w, "wide")
        elif op in ("zext", "sext"):
            k = rng.choice([1, 7, 8, 32, 64])
            if op == "zext":
                ok, r = apply(res, op, lambda X: X.zero_extend(w + k), A)
                conc = lambda a: a
            else:
                ok, r = apply(res, op, lambda X: X.sign_extend(w + k), A)
                conc = lambda a: bvsem.signed(a, w) & bvsem.mask(w + k)
            if ok:
                judge_value(res, op, (tA,), r, ((a,) for a in ga), conc, "wide", extra={"new_length": w + k})
        elif op == "extract":
            hi = rng.randrange(w)
            lo = rng.randrange(hi + 1)
            ok, r = apply(res, op, lambda X: X.extract(hi, lo), A)
            if ok:
                judge_value(res, op, (tA,), r, ((a,) for a in ga), lambda a: (a >> lo) & bvsem.mask(hi - lo + 1), "wide", extra={"hi": hi, "lo": lo})
        elif op == "concat":
            wb = rng.choice([8, 16, 32])
            tb = rand_si(rng, wb)
            B = V.mk(tb)
            tB = V.tup(B)
            gb = G.sample_members(tB, rng)
            ok, r = apply(res, op, lambda X, Y: X.concat(Y), A, B)
            if ok:
                judge_value(res, op, (tA, tB), r, itertools.product(ga, gb), lambda a, b: (a << wb) | b, "wide")


def reuse_shard(spec, res, rng):
    """the same operand objects used by several operations in a row (the VSA backend caches the object it converted
    an expression to): the last operation is judged against the operands as they were built"""
    from vf.mon import vsaops as V
    from vf.ref import bvsem
    from vf.ref import sigamma as G

    firsts = {
        "zext": lambda A, B, w: A.zero_extend(w + 3), "sext": lambda A, B, w: A.sign_extend(w + 2), "concat": lambda A, B, w: B.concat(A), "concat2": lambda A, B, w: A.concat(B),
        "extract": lambda A, B, w: A.extract(w - 1, w // 2), "neg": lambda A, B, w: -A, "not": lambda A, B, w: ~A, "union": lambda A, B, w: A.union(B), "widen": lambda A, B, w: A.widen(B),
        "intersection": lambda A, B, w: A.intersection(B), "eval": lambda A, B, w: (A.eval(5), A.max(), A.min(signed=True), A.cardinality), "reverse": lambda A, B, w: A.reverse(),
    }
    for op in V.BIN:
        firsts[op] = (lambda o: lambda A, B, w: V.BIN[o][0](A, B))(op)
    for op in V.CMP:
        firsts[op] = (lambda o: lambda A, B, w: V.CMP[o][0](A, B))(op)
    doms = {w: G.all_sis(w, aligned_only=True) for w in (3, 4)}
    for _ in range(spec["n"]):
        w = rng.choice([3, 4, 8, 16])
        ta, tb = (rng.choice(doms[w]), rng.choice(doms[w])) if w <= 4 else (rand_si(rng, w), rand_si(rng, w))
        A, B = V.mk(ta), V.mk(tb)
        tA, tB = V.tup(A), V.tup(B)
        ga = sorted(G.gamma(tA)) if G.count(tA) <= 64 else G.sample_members(tA, rng)
        gb = sorted(G.gamma(tB)) if G.count(tB) <= 64 else G.sample_members(tB, rng)
        seq = [rng.choice(list(firsts)) for _ in range(rng.choice([1, 2, 3]))]
        if any(o in ("shl", "lshr", "ashr") for o in seq) and G.count(tB) > 40:
            continue
        for o in seq:
            apply(res, "reuse-" + o, firsts[o], A, B, w)
        last = rng.choice(["add", "sub", "and", "or", "xor", "mul", "ult", "sle", "eq", "neg", "not"])
        note_case(res, "reuse:" + ",".join(seq) + ":" + last, (ta, tb))
        extra = {"earlier_operations_on_the_same_objects": seq}
        if last in V.BIN:
            fn, conc, exempt = V.BIN[last]
            ok, r = apply(res, last, fn, A, B)
            if ok:
                judge_value(res, last, (tA, tB), r, itertools.product(ga, gb), lambda a, b: conc(a, b, w), "reuse", extra)
        elif last in V.CMP:
            fn, cmpname = V.CMP[last]
            ok, r = apply(res, last, fn, A, B)
            if ok:
                judge_bool(res, last, (tA, tB), r, itertools.product(ga, gb), cmpname, w)
                res.count("judged:reuse")
        else:
            fn, conc = V.UN[last]
            ok, r = apply(res, last, fn, A)
            if ok:
                judge_value(res, last, (tA,), r, ((a,) for a in ga), lambda a: conc(a, w), "reuse", extra)
        if rng.random() < 0.5:
            # something computed from an operand (and a constant, or the full range) compared with that operand: the two
            # are different values although they come from the same object
            kc = rng.randrange(1, 1 << w)
            K = V.mk((w, 0, kc, kc, False, False))
            src, tsrc, gsrc = (A, tA, ga) if rng.random() < 0.7 else (V.mk((w, 1, 0, (1 << w) - 1, False, False)), (w, 1, 0, (1 << w) - 1, False, False), None)
            if gsrc is None:
                gsrc = sorted(G.gamma(tsrc)) if w <= 4 else G.sample_members(tsrc, rng)
            dname = rng.choice(["add", "sub", "xor", "radd"])
            dfn = {"add": lambda X: X + K, "sub": lambda X: X - K, "xor": lambda X: X ^ K, "radd": lambda X: K + X}[dname]
            dconc = {"add": lambda a: (a + kc) & bvsem.mask(w), "sub": lambda a: (a - kc) & bvsem.mask(w), "xor": lambda a: a ^ kc, "radd": lambda a: (a + kc) & bvsem.mask(w)}[dname]
            ok, D = apply(res, "derived-" + dname, dfn, src)
            if ok and hasattr(D, "lower_bound"):
                gd = [dconc(a) for a in gsrc]
                cmpn = rng.choice(["eq", "ne", "ult", "sle"])
                fn, cmpname = V.CMP[cmpn]
                ok, r = apply(res, cmpn, fn, D, src)
                if ok:
                    judge_bool(res, cmpn, (V.tup(D), tsrc), r, itertools.product(gd, gsrc), cmpname, w)
                    res.count("judged:derived-vs-operand")
        if V.tup(A) != tA or V.tup(B) != tB:
            res.count("operand_changed_in_place")
            res.violation({"kind": "si-op", "mon": "M-si", "op": "reuse", "what": "an operation changed its operand object in place", "operands": [list(tA), list(tB)], "observed": [list(V.tup(A)), list(V.tup(B))], "earlier_operations_on_the_same_objects": seq})


def rev_shard(spec, res, rng):
    """reversed singletons (constants) are exact in the documentation: operations on them must contain the
    byte-swapped arithmetic"""
    from vf.mon import vsaops as V
    from vf.ref import sigamma as G

    for i in range(spec["n"]):
        w = rng.choice([16, 32])
        va = rng.getrandbits(w)
        ta = (w, 0, va, va, False, True)
        tb = rand_si(rng, w)
        if rng.random() < 0.3:
            vb = rng.getrandbits(w)
            tb = (w, 0, vb, vb, False, rng.random() < 0.5)
        A, B = V.mk(ta), V.mk(tb)
        tA, tB = V.tup(A), V.tup(B)
        ga = sorted(G.gamma(tA))
        gb = G.sample_members(tB, rng)
        op = rng.choice(["add", "sub", "and", "or", "xor", "ult", "eq", "sle", "not", "neg"])
        note_case(res, op + "-rev", (ta, tb))
        if rng.random() < 0.5 and op in V.BIN:
            do_binary(res, op, tb, ta, gb, ga, w, "rev")
        elif op in V.BIN:
            do_binary(res, op, ta, tb, ga, gb, w, "rev")
        elif op in V.CMP:
            do_cmp(res, op, ta, tb, ga, gb, w)
        else:
            do_unary(res, op, ta, ga, w, "rev")


def K_si_sdiv_floors(w):
    """StridedInterval.sdiv abstracts floor division: every value the oracle misses is a truncated quotient whose
    floor-division counterpart (one less, signs differ, inexact) IS in the observed result."""
    from vf.ref import bvsem
    from vf.ref import sigamma as G

    if w.get("op") != "sdiv" or w.get("what") or not w.get("missing"):
        return False
    rt = tuple(w["observed"])
    bits = rt[0]
    for (a, b), v in w["missing"]:
        sa, sb = bvsem.signed(a, bits), bvsem.signed(b, bits)
        if sb == 0:
            return False
        fl = (sa // sb) & bvsem.mask(bits)
        if fl == v or not G.member(rt, fl):
            return False
    return True


def replay(w, res):
    from vf.mon import vsaops as V
    from vf.ref import sigamma as G

    op = w["op"].replace("_int", "")
    ts = [tuple(t) for t in w["operands"]]
    width = ts[0][0]
    gs = [sorted(G.gamma(t)) if G.count(t) <= 4096 else G.sample_members(t, random.Random(0), 12) for t in ts]
    try:
        if op in V.BIN and len(ts) == 2:
            do_binary(res, op, ts[0], ts[1], gs[0], gs[1], width)
        elif op in V.CMP:
            do_cmp(res, op, ts[0], ts[1], gs[0], gs[1], width)
        elif op in V.UN:
            do_unary(res, op, ts[0], gs[0], width)
        else:
            res.inconc(f"replay of op {w['op']} needs its shard (re-run the check)")
    except Exception:  # noqa: BLE001
        res.inconc("replay raised: " + traceback.format_exc()[-300:])
