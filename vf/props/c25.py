"""C25 — constraint_to_si never cuts off a satisfying assignment."""
from __future__ import annotations

import itertools
import random
import traceback

PID = "C25"
LEVEL = "exploration"
RULE = (
    "a case is one Boolean constraint over 1..2 variables (3..6 bits, 8 bits with one variable; each variable "
    "annotated with a well-formed strided interval or left TOP) handed to the real claripy.constraint_to_si / "
    "backends.vsa.constraint_to_si.  Shapes: the forms the balancer rewrites (x op k, x+c op k, x-c op k, c-x op k, "
    "ZeroExt/SignExt/Extract/Concat/&mask/<<c/Reverse/If(...) op k for all eight orderings, == and !=, constants "
    "from the boundary pool incl. values that make additions wrap) and And/Or/Not combinations of them, plus random "
    "Boolean trees.  Oracle: all satisfying assignments inside the annotated intervals are enumerated with the "
    "pure-Python semantics; if one exists the reported flag must be True; for every returned (expression, bound) "
    "pair and every satisfying assignment, the expression's value under the assignment (claripy's concrete backend "
    "on the substituted expression) must be a member of gamma(vsa.convert(bound)) (vf/ref/sigamma.py).  A second "
    "monitor applies the pairs the way the replacement solver does: a SolverReplacement(SolverVSA) that was given "
    "the constraint must keep every satisfying value of each variable in eval/min/max.  Non-trivial: at least one "
    "pair was returned or the flag was False; distinct by descriptor hash."
    " Session 4: byte-reversed operands at 16 bits (all 65536 assignments), Not(And/Or) shapes."
)
ASSUMPTIONS = [
    "an SI annotation declares the variable's range (assignments outside it are not models)",
    "well-formed annotations only (see C21)",
]


def floors(tier):
    q = tier == "quick"
    return {"judged": 6000 if q else 100000, "pairs_judged": 2500 if q else 40000, "unsat_flags": 100 if q else 1500, "sat_assignments": 10**5, "judged:replacement": 500 if q else 8000}


def plan(tier, seed):
    q = tier == "quick"
    S = [{"kind": "shapes", "stream": i, "n": 600 if q else 7000} for i in range(12 if q else 16)]
    S += [{"kind": "trees", "stream": i, "n": 400 if q else 5000} for i in range(3 if q else 8)]
    S += [{"kind": "rev16", "stream": i, "n": 40 if q else 500} for i in range(2 if q else 6)]
    return S


def viol(res, what, case, **kw):
    res.count("wrong:" + what)
    res.violation({"kind": "balancer", "mon": "M-bal", "what": what, "case": case, **kw})


# ------------------------------------------------------------------------------------------ shapes
def shape(rng, w, nv):
    from vf.gen import exprgen as G

    m = (1 << w) - 1
    x = G.bvs("a", w)
    y = G.bvs("b", w) if nv > 1 else x
    pool = [0, 1, 2, 3, m, m - 1, m - 2, 1 << (w - 1), (1 << (w - 1)) - 1, (1 << (w - 1)) + 1, rng.getrandbits(w), rng.getrandbits(w)]

    def k(width=w):
        return ["bvv", rng.choice(pool) & ((1 << width) - 1), width]

    cmp_ = rng.choice(G.CMP_ALL)
    s = rng.randrange(26)
    if s >= 22:
        # a left shift whose shifted-out bits are provably zero (the only case in which the balancer removes it), against
        # constants that are and are not multiples of the shift
        n = rng.choice([1, 2, 3])
        sh = rng.randrange(1, n + 1)
        inner = rng.choice([["zext", n, x], ["concat", ["bvv", 0, n], x], ["zext", n, ["and", x, ["bvv", m >> 1, w]]]])
        kk = rng.choice([rng.getrandbits(w + n), (rng.getrandbits(w) << sh) & ((1 << (w + n)) - 1), 1, (1 << sh) - 1, 1 << sh, (1 << sh) + 1, (1 << (w + n)) - 1])
        return [cmp_, ["shl", inner, ["bvv", sh, w + n]], ["bvv", kk, w + n]]
    if s == 0:
        lhs = x
    elif s == 1:
        lhs = ["add", x, k()]
    elif s == 2:
        lhs = ["sub", x, k()]
    elif s == 3:
        lhs = ["sub", k(), x]
    elif s == 4:
        n = rng.choice([1, 2, 8])
        return [cmp_, ["zext", n, x], k(w + n)]
    elif s == 5:
        n = rng.choice([1, 2, 8])
        return [cmp_, ["sext", n, x], k(w + n)]
    elif s == 6:
        hi = rng.randrange(w)
        lo = rng.randrange(hi + 1)
        return [cmp_, ["extract", hi, lo, x], k(hi - lo + 1)]
    elif s == 7:
        n = rng.choice([1, 2, 3])
        return [cmp_, ["concat", ["bvv", rng.choice([0, 0, 1]), n], x], k(w + n)]
    elif s == 8:
        lhs = ["and", x, ["bvv", rng.choice([1, 3, 7, m >> 1, m, 1 << (w - 1), 6]) & m, w]]
    elif s == 9:
        lhs = ["shl", x, ["bvv", rng.randrange(0, w + 1), w]]
    elif s == 10 and w % 8 == 0:
        lhs = ["reverse", x]
    elif s == 11:
        c = [rng.choice(G.CMP_ALL), y if nv > 1 else x, k()]
        lhs = ["ite", c, rng.choice([x, k(), ["add", x, k()]]), rng.choice([k(), x, y])]
    elif s == 12:
        lhs = ["add", x, y]
    elif s == 13:
        lhs = ["add", ["add", x, k()], k()]
    elif s == 14:
        n = rng.choice([1, 2])
        # (masks of low ones ending below, at and above the width of the extended value)
        mk_ = rng.choice([m, m, (1 << rng.randrange(1, w + n + 1)) - 1, m >> 1, (m << 1) | 1])
        return [cmp_, ["and", ["zext", n, x], ["bvv", mk_ & ((1 << (w + n)) - 1), w + n]], k(w + n)]
    elif s == 15:
        hi = rng.randrange(w)
        return [cmp_, ["extract", hi, 0, ["add", x, k()]], k(hi + 1)]
    elif s == 16:
        return [cmp_, x, y]
    elif s == 17:
        return [cmp_, k(), x]
    elif s == 18:
        lhs = ["neg", x]
    elif s == 19:
        lhs = ["sub", x, y]
    elif s == 20:
        n = rng.choice([1, 2])
        return [cmp_, ["extract", w - 1, 0, ["zext", n, x]], k()]
    else:
        lhs = ["or", x, k()]
    return [cmp_, lhs, k()]


def rev_shape(rng):
    from vf.gen import exprgen as G

    w = 16
    x = G.bvs("a", w)
    pool = [0, 1, 0xFF, 0x100, 0x101, 0xFF00, 0xFFFF, 0x8000, 0x7FFF, 0x80, 0x7F, 0x1234, rng.getrandbits(16), rng.getrandbits(16)]

    def k(width=w):
        return ["bvv", rng.choice(pool) & ((1 << width) - 1), width]

    cmp_ = rng.choice(G.CMP_ALL)
    rx = ["reverse", x]
    s = rng.randrange(10)
    if s == 0:
        c = [cmp_, rx, k()]
    elif s == 1:
        c = [cmp_, k(), rx]
    elif s == 2:
        c = [cmp_, ["add", rx, k()], k()]
    elif s == 3:
        c = [cmp_, ["reverse", ["add", x, k()]], k()]
    elif s == 4:
        hi = rng.choice([7, 15, 11])
        lo = rng.choice([0, 8, 4]) if hi == 15 else 0
        c = [cmp_, ["extract", hi, lo, rx], k(hi - lo + 1)]
    elif s == 5:
        c = [cmp_, ["zext", 8, rx], k(24)]
    elif s == 6:
        c = [cmp_, ["and", rx, ["bvv", rng.choice([0xFF, 0xFF00, 0x0FF0, 0x7FFF]), 16]], k()]
    elif s == 7:
        c = [cmp_, rx, x]
    elif s == 8:
        c = [cmp_, ["sub", rx, k()], k()]
    else:
        c = [cmp_, ["concat", ["extract", 7, 0, x], ["extract", 15, 8, x]], k()]
    r = rng.random()
    if r < 0.15:
        return ["bnot", c]
    if r < 0.3:
        return ["band", c, [rng.choice(G.CMP_ALL), x, k()]]
    return c


def ifif_shape(rng, w, nv):
    """an If on both sides of a (mostly signed) comparison; under the declared ranges one of them often collapses to one
    arm, and the other is balanced arm by arm"""
    from vf.gen import exprgen as G

    m = (1 << w) - 1
    x = G.bvs("a", w)
    y = G.bvs("b", w) if nv > 1 else x

    def k():
        return ["bvv", rng.choice([0, 1, 2, 3, m, m - 1, 1 << (w - 1), (1 << (w - 1)) - 1, rng.getrandbits(w)]) & m, w]

    def arm():
        c = [x, k(), k(), ["inv", x], ["add", x, k()], y]
        if w >= 3:
            c.append(["sext", 1, ["extract", w - 2, 0, x]])
            c.append(["zext", 1, ["extract", w - 2, 0, x]])
        return rng.choice(c)

    def cond():
        return [rng.choice(G.CMP_ALL), rng.choice([x, y]), k()]

    cmp_ = rng.choice(["sge", "sle", "sgt", "slt", "sge", "sle", "uge", "ule", "eq"])
    left = ["ite", cond(), arm(), arm()] if rng.random() < 0.8 else arm()
    return [cmp_, left, ["ite", cond(), arm(), ["ite", cond(), arm(), arm()] if rng.random() < 0.4 else arm()]]


def constraint(rng, w, nv):
    r = rng.random()
    if r < 0.1:
        return ifif_shape(rng, w, nv)
    if r < 0.6:
        return shape(rng, w, nv)
    if r < 0.75:
        return ["band", shape(rng, w, nv), shape(rng, w, nv)]
    if r < 0.85:
        return ["bor", shape(rng, w, nv), shape(rng, w, nv)]
    if r < 0.90:
        return ["bnot", shape(rng, w, nv)]
    if r < 0.93:
        return ["bnot", [rng.choice(["band", "bor"]), shape(rng, w, nv), shape(rng, w, nv)]]
    return ["band", shape(rng, w, nv), ["bor", shape(rng, w, nv), shape(rng, w, nv)]]


# ------------------------------------------------------------------------------------------ one case
def run_case(res, rng, d, anns):
    import claripy

    from vf.gen import build as bvb
    from vf.props import c23, c24
    from vf.ref import bvsem

    case = {"constraint": d, "annotations": {n: (list(t) if t else None) for n, (w, t) in anns.items()}}
    try:
        ast = c24.annotate(bvb.build(d), anns)
    except claripy.errors.ClaripyZeroDivisionError:
        return
    if not isinstance(ast, claripy.ast.Bool):
        return
    envs, complete = c24.envs_for(anns, rng, cap=70000)
    models = [env for env in envs if c24._truth(d, env)]
    res.count("sat_assignments", len(models))
    try:
        sat, pairs = claripy.backends.vsa.constraint_to_si(ast)
    except claripy.errors.ClaripyError as e:
        res.count("cts_raised")
        res.setadd("cts_raised", f"{type(e).__name__}:{str(e)[:80]}")
        return
    except Exception as e:  # noqa: BLE001
        res.count("cts_raised_other")
        res.setadd("cts_raised_other", f"{type(e).__name__}:{str(e)[:80]}:{traceback.format_exc()[-300:]}")
        return
    res.count("judged")
    res.count("ops:" + d[0])
    res.case(case, bool(pairs) or not sat, sample=case)
    if not sat:
        res.count("unsat_flags")
        if models:
            viol(res, "reported-unsat-but-model", case, model=models[0])
        return
    if not pairs:
        res.count("no_pairs")
    # variables as claripy leaves, for substitution
    var_asts = {}
    for name, (w, t) in anns.items():
        plain = claripy.BVS(name, w, explicit_name=True)
        var_asts[name] = [plain]
        if t is not None:
            var_asts[name].append(plain.annotate(claripy.annotation.StridedIntervalAnnotation(t[1], t[2], t[3])))
    for expr, bound in pairs:
        try:
            bobj = claripy.backends.vsa.convert(bound)
        except Exception as e:  # noqa: BLE001
            res.count("bound_convert_raised")
            res.setadd("bound_convert_raised", f"{type(e).__name__}:{str(e)[:80]}")
            continue
        if not hasattr(bobj, "lower_bound") or c23.is_vs(bobj):
            res.count("bound_not_an_interval")
            continue
        res.count("pairs_judged")
        res.count("pair_expr_op:" + expr.op)
        m = bvsem.mask(len(expr))
        for env in models if len(models) <= 3000 else rng.sample(models, 3000):
            sub = expr
            for name, leaves in var_asts.items():
                v = claripy.BVV(env[name], anns[name][0])
                for leaf in leaves:
                    sub = claripy.replace(sub, leaf, v)
            try:
                val = claripy.backends.concrete.eval(sub, 1)[0] & m
            except Exception as e:  # noqa: BLE001
                res.count("expr_eval_raised")
                res.setadd("expr_eval_raised", f"{type(e).__name__}:{str(e)[:80]}")
                break
            if not c23.in_abs(bobj, val):
                viol(res, "bound-excludes-satisfying-value", case, expr=repr(expr)[:200], bound=c23.describe(bobj), model=env, value=val)
                return
    # ---- the pairs as the replacement solver uses them
    if rng.random() < 0.35 and models:
        res.count("judged:replacement")
        for cls_name in ("replacement", "hybrid"):
            try:
                if cls_name == "replacement":
                    s = claripy.SolverReplacement(claripy.SolverVSA(), replace_constraints=True, complex_auto_replace=True)
                else:
                    s = claripy.SolverHybrid()
                s.add([ast])
            except Exception as e:  # noqa: BLE001
                res.count("replacement_add_raised")
                res.setadd("replacement_add_raised", f"{cls_name}:{type(e).__name__}:{str(e)[:80]}")
                continue
            # bounds derived on a branch are that branch's: the solver it was branched from (which never saw the
            # constraint) must still allow every value of the declared ranges
            try:
                parent = claripy.SolverHybrid() if cls_name == "hybrid" else claripy.SolverReplacement(claripy.SolverVSA(), replace_constraints=True, complex_auto_replace=True)
                for name in anns:
                    parent.eval(var_asts[name][-1], 2, **({"exact": False} if cls_name == "hybrid" else {}))
                child = parent.branch()
                child.add([ast])
                kwp = {"exact": False} if cls_name == "hybrid" else {}
                for name, (w, t) in anns.items():
                    leaf = var_asts[name][-1]
                    allv = {env[name] for env in envs}
                    mx, mn = parent.max(leaf, **kwp), parent.min(leaf, **kwp)
                    res.count("branch_parent_probes")
                    if mx < max(allv) or mn > min(allv):
                        viol(res, f"{cls_name}-bound-of-a-branch-reached-its-parent", case, variable=name, observed=[mn, mx], expected=[min(allv), max(allv)])
                        return
            except claripy.errors.ClaripyError as e:
                res.count("replacement_branch_raised")
                res.setadd("replacement_branch_raised", f"{cls_name}:{type(e).__name__}:{str(e)[:80]}")
            for name, (w, t) in anns.items():
                leaf = var_asts[name][-1]
                feas = {env[name] for env in models}
                kw = {"exact": False} if cls_name == "hybrid" else {}
                try:
                    mx = s.max(leaf, **kw)
                    mn = s.min(leaf, **kw)
                    ev = s.eval(leaf, 300, **kw)
                except claripy.errors.ClaripyError as e:
                    res.count("replacement_query_raised")
                    res.setadd("replacement_query_raised", f"{cls_name}:{type(e).__name__}:{str(e)[:80]}")
                    continue
                except Exception as e:  # noqa: BLE001
                    res.count("replacement_query_raised_other")
                    res.setadd("replacement_query_raised_other", f"{cls_name}:{type(e).__name__}:{str(e)[:80]}")
                    continue
                if mx < max(feas) or mn > min(feas):
                    viol(res, f"{cls_name}-bound-cuts-feasible-value", case, variable=name, observed=[mn, mx], expected=[min(feas), max(feas)])
                    return
                if complete and len(ev) < 300 and not feas <= set(ev):
                    viol(res, f"{cls_name}-eval-misses-feasible-value", case, variable=name, observed=sorted(ev)[:30], missing=sorted(feas - set(ev))[:10])
                    return


def run_shard(spec, res):
    import sys

    from vf.gen import exprgen as G
    from vf.props import c24

    sys.setrecursionlimit(2000)
    kind = spec["kind"]
    rng = random.Random(f"{spec['seed']}:{PID}:{kind}:{spec.get('stream')}")
    for i in range(spec["n"]):
        nv = rng.choice([1, 1, 2])
        w = rng.choice([3, 4, 4, 5, 6, 8] if nv == 1 else [3, 4, 4, 5])
        anns = {f"{'ab'[j]}{w}": (w, c24.rand_ann(rng, w) if rng.random() < 0.6 else None) for j in range(nv)}
        if kind == "rev16":
            # byte-reversed operands need two bytes (a one-byte Reverse is rewritten away): one 16-bit variable, all
            # 65536 assignments (or the annotated range) enumerated
            nv, w = 1, 16
            anns = {"a16": (16, c24.rand_ann(rng, 16) if rng.random() < 0.7 else None)}
            d = rev_shape(rng)
            res.count("reverse_shapes")
        elif kind == "shapes":
            d = constraint(rng, w, nv)
        else:
            g = G.Gen(rng, nvars=nv, widths=[w], surface=False, allow_div=False, closed=True, nbools=0)
            d = g.boolx(rng.choice([1, 2, 3]))
            if not c24.vsa_ok(d):
                continue
        try:
            run_case(res, rng, d, anns)
        except RecursionError:
            res.count("harness_recursion")
        except Exception:  # noqa: BLE001
            res.violation({"kind": "harness-error", "what": "case-raised", "case": {"constraint": d}, "tb": traceback.format_exc()[-1500:]})


def replay(w, res):
    case = w.get("case") or {}
    if "constraint" not in case:
        res.inconc("nothing to replay")
        return
    anns = {}
    for n, t in case["annotations"].items():
        width = int("".join(ch for ch in n[1:] if ch.isdigit()))
        anns[n] = (width, tuple(t) if t else None)
    run_case(res, random.Random(0), case["constraint"], anns)
