"""C24 — VSA evaluation of expressions over annotated variables over-approximates."""
from __future__ import annotations

import itertools
import random
import traceback

PID = "C24"
LEVEL = "exploration"
RULE = (
    "a case is one bitvector or Boolean operation tree (random typed grammar, depth <= 4, operators the VSA backend "
    "maps: + - * udiv urem neg ~ & | ^ << >> LShR Concat Extract ZeroExt SignExt Reverse If and all comparisons, "
    "And/Or/Not) over 1..3 variables of 3..6 bits (8/16 bits for the byte-wise shard), each variable annotated with "
    "a well-formed strided interval (or left unannotated = TOP).  The real claripy.backends.vsa.convert() result "
    "(StridedInterval, DiscreteStridedIntervalSet or BoolResult) is concretised by vf/ref/sigamma.py and must contain "
    "the value (truth value) the tree takes under EVERY assignment of the variables inside their intervals "
    "(pure-Python SMT-LIB semantics, vf/ref/bvsem.py; all assignments when <= 4096, otherwise corners + 4096 random "
    "ones; assignments that divide by zero are exempt).  Then a real SolverVSA gets 0..2 constraints over the same "
    "variables: satisfiable() must not be False when a model exists, eval(e, n) returning fewer than n values must "
    "list every feasible value, min/max must bound the feasible values (signed and unsigned), solution(e, v) must "
    "not be False for a feasible v, and is_true/is_false must not claim what a model refutes.  Non-trivial: the tree "
    "has an operator and a variable; distinct by descriptor hash."
    " Session 4: different variables with the same declared range behind undecided Ifs; shifts by byte-reversed amounts; unaligned declared ranges (recorded finding)."
)
ASSUMPTIONS = [
    "an SI annotation declares the variable's range: the reference model set is the constraints restricted to assignments inside the annotated intervals",
    "well-formed annotations only (see C21); SDiv, SMod and rotations are not generated (the VSA backend does not map them)",
]

UNSUPPORTED = {"sdiv", "srem", "rol", "ror"}


def floors(tier):
    q = tier == "quick"
    return {"judged:convert": 6000 if q else 120000, "judged:bool": 1500 if q else 30000, "judged:solver": 3000 if q else 60000, "assignments": 10**6, "with_constraints": 800 if q else 15000}


def plan(tier, seed):
    q = tier == "quick"
    S = [{"kind": "trees", "stream": i, "n": 700 if q else 8000} for i in range(12 if q else 16)]
    S += [{"kind": "bytes", "stream": i, "n": 250 if q else 3000} for i in range(2 if q else 4)]
    S += [{"kind": "templates", "stream": 0, "n": 1 if q else 1}]
    S += [{"kind": "unaligned", "stream": 0, "n": 150 if q else 1500}]
    return S


# ------------------------------------------------------------------------------------------ helpers
def rand_ann(rng, w):
    """annotation for one variable: a well-formed interval tuple, or None (unannotated = TOP)"""
    from vf.props.c21 import rand_si
    from vf.ref import sigamma as G

    k = rng.random()
    if k < 0.15:
        return None
    if w <= 4:
        return rng.choice(_dom(w))
    t = rand_si(rng, w)
    while G.count(t) > 64:
        t = rand_si(rng, w)
    return t


_DOM = {}


def _dom(w):
    from vf.ref import sigamma as G

    if w not in _DOM:
        _DOM[w] = G.all_sis(w, aligned_only=True)
    return _DOM[w]


def annotate(ast, anns):
    """replace every plain variable by the same variable carrying its StridedIntervalAnnotation"""
    import claripy

    for name, (w, t) in anns.items():
        if t is None:
            continue
        plain = claripy.BVS(name, w, explicit_name=True)
        ann = plain.annotate(claripy.annotation.StridedIntervalAnnotation(t[1], t[2], t[3]))
        ast = claripy.replace(ast, plain, ann)
    return ast


def envs_for(anns, rng, cap=4096):
    from vf.ref import sigamma as G

    names = sorted(anns)
    doms = []
    total = 1
    for n in names:
        w, t = anns[n]
        d = list(range(1 << w)) if t is None else sorted(G.gamma(t))
        doms.append(d)
        total *= len(d)
    if total <= cap:
        return [dict(zip(names, c)) for c in itertools.product(*doms)], True
    out = [dict(zip(names, c)) for c in itertools.product(*[sorted({d[0], d[-1], d[len(d) // 2]}) for d in doms])]
    for _ in range(cap):
        out.append({n: rng.choice(d) for n, d in zip(names, doms)})
    return out, False


def vsa_values(obj):
    """(kind, admits(v)) for a converted object"""
    from vf.mon import vsaops as V
    from vf.props import c23

    if hasattr(obj, "value") and not hasattr(obj, "lower_bound"):
        vals = V.bool_values(obj)
        return "bool", (lambda v: bool(v) in vals), sorted(vals)
    if obj is True or obj is False:
        return "bool", (lambda v: bool(v) == obj), [obj]
    if hasattr(obj, "lower_bound") and not c23.is_vs(obj):
        return "bv", (lambda v: c23.in_abs(obj, v)), c23.describe(obj)
    return None, None, repr(obj)[:80]


def viol(res, what, case, **kw):
    res.count("wrong:" + what)
    res.violation({"kind": "vsa-expr", "mon": "M-vsa", "what": what, "case": case, **kw})


def K_unaligned_upper_bound_read_as_member(w):
    """the recorded defect: a variable's declared range has an upper bound that is not lb + k*stride, and the values
    the result misses are exactly those that come back once the same range is written with its upper bound on the
    stride (the classifier rebuilds the expression that way and asks the VSA backend again)"""
    import claripy

    from vf.gen import build as bvb

    if w.get("kind") != "vsa-expr" or not w.get("missing"):
        return False
    case = w.get("case") or {}
    anns, changed = {}, False
    for n, t in (case.get("annotations") or {}).items():
        if not t:
            anns[n] = (None, None)
            continue
        bits, st, lb, ub = t[0], t[1], t[2], t[3]
        if st > 1 and ((ub - lb) % (1 << bits)) % st:
            ub = (lb + ((ub - lb) % (1 << bits)) // st * st) % (1 << bits)
            changed = True
        anns[n] = (bits, (bits, st, lb, ub, bool(t[4]), bool(t[5])))
    if not changed or case.get("constraints"):
        return False
    try:
        obj = claripy.backends.vsa.convert(annotate(bvb.build(case["expr"]), anns))
        kind, admits, _ = vsa_values(obj)
    except Exception:  # noqa: BLE001
        return False
    if kind is None:
        return False
    return all(admits(v) for _env, v in w["missing"])


# ------------------------------------------------------------------------------------------ one case
def run_case(res, rng, d, anns, cons_d, tag):
    import claripy

    from vf.gen import build as bvb
    from vf.ref import bvsem

    case = {"expr": d, "annotations": {n: (list(t) if t else None) for n, (w, t) in anns.items()}, "constraints": cons_d}
    is_b = bvsem.is_bool(d)
    try:
        ast = annotate(bvb.build(d), anns)
        cons = [annotate(bvb.build(c), anns) for c in cons_d]
    except claripy.errors.ClaripyZeroDivisionError:
        res.count("skipped_build_div0")
        return
    if not isinstance(ast, claripy.ast.Base):
        return
    nontrivial = bool(bvsem.variables(d)) and bvsem.size(d) > 1
    res.case(case, nontrivial, sample=case)
    envs, complete = envs_for(anns, rng)
    res.count("assignments", len(envs))
    vals = []  # (env, value) for non-exempt assignments
    for env in envs:
        try:
            vals.append((env, bvsem.ev(d, env, strict_div=True)))
        except bvsem.DivByZero:
            continue
    w = None if is_b else bvsem.width(d)
    # ---- backend conversion
    be = claripy.backends.vsa
    try:
        obj = be.convert(ast)
    except claripy.errors.BackendError as e:
        res.count("convert_unsupported")
        res.setadd("convert_unsupported", str(e)[:80])
        obj = None
    except Exception as e:  # noqa: BLE001
        res.count("convert_raised")
        res.setadd("convert_raised", f"{type(e).__name__}:{str(e)[:80]}")
        obj = None
    if obj is not None:
        kind, admits, shown = vsa_values(obj)
        if kind is None or (kind == "bool") != is_b:
            res.count("convert_result_not_judgeable")
        else:
            res.count("judged:convert")
            res.count("judged:" + kind)
            res.count("judged:" + tag)
            miss = [[env, v] for env, v in vals if not admits(v)][:4]
            if miss:
                viol(res, "convert-excludes-value", case, observed=shown, missing=miss)
                return
    # ---- SolverVSA
    s = claripy.SolverVSA()
    try:
        if cons:
            s.add(cons)
            res.count("with_constraints")
    except Exception as e:  # noqa: BLE001
        res.count("solver_add_raised")
        res.setadd("solver_add_raised", f"{type(e).__name__}:{str(e)[:80]}")
        return
    models = [(env, v) for env, v in vals if all(_truth(c, env) for c in cons_d)]
    feas = {v for _, v in models}
    res.count("judged:solver")

    def q(name, fn):
        try:
            return True, fn()
        except claripy.errors.ClaripyError as e:
            res.count("solver_raised:" + name)
            res.setadd("solver_raised", f"{name}:{type(e).__name__}:{str(e)[:60]}")
        except Exception as e:  # noqa: BLE001
            res.count("solver_raised_other:" + name)
            res.setadd("solver_raised_other", f"{name}:{type(e).__name__}:{str(e)[:60]}")
        return False, None

    ok, sat = q("satisfiable", s.satisfiable)
    if ok and models and sat is False:
        viol(res, "satisfiable-false-but-model", case, model=models[0][0])
        return
    if not models:
        return
    if is_b:
        ok, t = q("is_true", lambda: s.is_true(ast))
        if ok and t is True and False in feas:
            viol(res, "is_true-but-false-in-a-model", case, model=next(e for e, v in models if v is False))
        ok, f = q("is_false", lambda: s.is_false(ast))
        if ok and f is True and True in feas:
            viol(res, "is_false-but-true-in-a-model", case, model=next(e for e, v in models if v is True))
        return
    m = bvsem.mask(w)
    for n in (1, 3, 100):
        ok, got = q("eval", lambda: s.eval(ast, n))
        if ok and complete and len(got) < n and not feas <= {g & m for g in got}:
            viol(res, "eval-misses-feasible-value", case, observed=list(got)[:20], missing=sorted(feas - {g & m for g in got})[:8], n=n)
            return
    for signed in (False, True):
        key = (lambda v: bvsem.signed(v, w)) if signed else (lambda v: v)
        ok, lo = q("min", lambda: s.min(ast, signed=signed))
        if ok and lo is not None and key(lo & m) > min(map(key, feas)):
            viol(res, "min-above-feasible-value", case, observed=lo, expected=min(feas, key=key), signed=signed)
            return
        ok, hi = q("max", lambda: s.max(ast, signed=signed))
        if ok and hi is not None and key(hi & m) < max(map(key, feas)):
            viol(res, "max-below-feasible-value", case, observed=hi, expected=max(feas, key=key), signed=signed)
            return
    for v in rng.sample(sorted(feas), min(3, len(feas))):
        ok, so = q("solution", lambda: s.solution(ast, v))
        if ok and so is False:
            viol(res, "solution-false-for-feasible-value", case, value=v)
            return


def _truth(c, env):
    from vf.ref import bvsem

    try:
        return bool(bvsem.ev(c, env, strict_div=True))
    except bvsem.DivByZero:
        return False


def vsa_ok(d):
    from vf.ref import bvsem

    return not (set(bvsem.ops_in(d)) & UNSUPPORTED)


# ------------------------------------------------------------------------------------------ shards
def run_shard(spec, res):
    import sys

    from vf.gen import exprgen as G

    sys.setrecursionlimit(2000)
    kind = spec["kind"]
    rng = random.Random(f"{spec['seed']}:{PID}:{kind}:{spec.get('stream')}")
    if kind == "unaligned":
        # a declared range whose upper bound is not lb + k*stride (claripy.SI(stride=4, lower_bound=0, upper_bound=10)):
        # the members are 0, 4, 8.  Recorded finding (the operations read the stored upper bound as a member).
        for i in range(spec["n"]):
            w = rng.choice([4, 5, 8])
            x = G.bvs("a", w)
            m = (1 << w) - 1
            st = rng.choice([2, 3, 4, 5])
            lb = rng.randrange(0, m // 2)
            kmax = max(1, min(6, (m - lb) // st - 1))
            ub = min(m, lb + rng.randrange(1, kmax + 1) * st + rng.randrange(1, st))
            anns = {f"a{w}": (w, (w, st, lb, ub, False, False))}
            kc = ["bvv", rng.getrandbits(w), w]
            d = rng.choice([["sub", kc, x], ["inv", x], ["neg", x], ["sub", x, kc], ["add", x, kc], ["xor", x, kc], ["eq", ["sub", kc, x], ["bvv", rng.getrandbits(w), w]], ["ult", ["inv", x], kc]])
            res.count("unaligned_cases")
            try:
                run_case(res, rng, d, anns, [], "unaligned")
            except Exception:  # noqa: BLE001
                res.violation({"kind": "harness-error", "what": "case-raised", "case": {"expr": d}, "tb": traceback.format_exc()[-1500:]})
        return
    if kind in ("trees", "bytes"):
        for i in range(spec["n"]):
            if kind == "trees":
                w = rng.choice([3, 4, 4, 5, 6])
                nv = rng.choice([1, 2, 2, 3])
            else:
                w = rng.choice([8, 16])
                nv = rng.choice([1, 2])
            g = G.Gen(rng, nvars=nv, widths=[w], surface=False, allow_div=(i % 4 == 0), closed=True, nbools=0)
            anns = {f"{'abcd'[j]}{w}": (w, rand_ann(rng, w)) for j in range(nv)}
            depth = rng.choice([1, 2, 2, 3, 4])
            for _ in range(20):
                d = g.boolx(depth) if rng.random() < 0.3 else g.bv(rng.choice([w, w, w, max(1, w - 1), w + 2]), depth)
                if vsa_ok(d):
                    break
            else:
                continue
            cons_d = []
            if rng.random() < 0.45:
                for _ in range(rng.choice([1, 1, 2])):
                    for _ in range(10):
                        c = _constraint(rng, g, w, nv)
                        if vsa_ok(c):
                            cons_d.append(c)
                            break
            try:
                run_case(res, rng, d, anns, cons_d, kind)
            except RecursionError:
                res.count("harness_recursion")
            except Exception:  # noqa: BLE001
                res.violation({"kind": "harness-error", "what": "case-raised", "case": {"expr": d}, "tb": traceback.format_exc()[-1500:]})
    elif kind == "templates":
        templates_shard(res, rng)


def _constraint(rng, g, w, nv):
    from vf.gen import exprgen as G

    x = G.bvs("abcd"[rng.randrange(nv)], w)
    k = rng.random()
    m = (1 << w) - 1
    c = ["bvv", rng.choice([0, 1, 2, m, m - 1, 1 << (w - 1), (1 << (w - 1)) - 1, rng.getrandbits(w)]), w]
    if k < 0.5:
        return [rng.choice(G.CMP_ALL), x, c]
    if k < 0.7:
        y = G.bvs("abcd"[rng.randrange(nv)], w)
        return [rng.choice(G.CMP_ALL), x, y]
    if k < 0.85:
        return [rng.choice(G.CMP_ALL), [rng.choice(["add", "sub", "and", "or", "xor"]), x, c], ["bvv", rng.getrandbits(w), w]]
    return g.boolx(2)


def templates_shard(res, rng):
    """directed shapes: the same variable on both sides, If with a Maybe condition, reversal, extracts of sums"""
    from vf.gen import exprgen as G

    for w in (3, 4, 8, 16):
        x, y = G.bvs("a", w), G.bvs("b", w)
        m = (1 << w) - 1
        shapes = [
            ["eq", x, x], ["ne", x, x], ["eq", x, ["add", x, ["bvv", 1, w]]], ["ult", x, x], ["ule", x, ["add", x, ["bvv", 1, w]]],
            ["sub", x, x], ["xor", x, x], ["eq", ["sub", x, y], ["bvv", 0, w]],
            ["ite", ["ult", x, ["bvv", m // 2, w]], x, y], ["ite", ["eq", x, y], ["bvv", 1, w], ["bvv", 0, w]],
            ["ite", ["ult", x, y], ["add", x, ["bvv", 1, w]], ["sub", y, ["bvv", 1, w]]],
            ["extract", w - 2, 0, ["add", x, y]], ["extract", w - 1, 1, ["mul", x, ["bvv", 3 & m, w]]],
            ["zext", 2, ["extract", w - 2, 1, x]], ["sext", 3, ["sub", x, y]], ["concat", x, ["inv", y]],
            ["band", ["ult", x, y], ["ult", y, x]], ["bor", ["ule", x, y], ["ule", y, x]], ["bnot", ["eq", x, y]],
            ["eq", ["and", x, ["bvv", 1, w]], ["bvv", 0, w]], ["ne", ["or", x, ["bvv", 1, w]], ["bvv", 0, w]],
            ["lshr", x, y], ["shl", x, ["and", y, ["bvv", 3 & m, w]]], ["ashr", ["neg", x], ["bvv", 1, w]],
            ["urem", x, ["or", y, ["bvv", 1, w]]], ["udiv", x, ["or", y, ["bvv", 1, w]]],
            # the same variable seen through two different operations (the VSA backend identifies values by name)
            ["eq", ["sext", 2, x], ["zext", 2, x]], ["ne", ["sext", 1, x], ["zext", 1, x]], ["ult", ["zext", 2, x], ["sext", 2, x]],
            ["eq", ["extract", w - 2, 0, x], ["extract", w - 1, 1, x]], ["eq", ["lshr", x, ["bvv", 1, w]], x], ["eq", ["ashr", x, ["bvv", 1, w]], ["lshr", x, ["bvv", 1, w]]],
            ["eq", ["inv", x], x], ["eq", ["neg", x], x], ["eq", ["shl", x, ["bvv", 1, w]], x], ["eq", ["and", x, ["bvv", m >> 1, w]], x],
            ["eq", ["concat", x, x], ["concat", x, y]], ["eq", ["ite", ["ult", x, y], x, y], x], ["eq", ["zext", 1, x], ["zext", 1, y]],
        ]
        if w == 16:
            # an amount that is itself byte-reversed (0x0100..0x0300 stands for 1..3)
            shapes += [["shl", x, ["reverse", y]], ["lshr", x, ["reverse", y]], ["ashr", x, ["reverse", y]], ["shl", ["bvv", 1, w], ["reverse", y]]]
        if w % 8 == 0:
            shapes += [["eq", x, ["reverse", x]], ["reverse", ["add", x, ["bvv", 1, w]]], ["ult", ["reverse", x], y], ["eq", ["reverse", ["reverse", x]], x], ["sub", ["reverse", x], x], ["extract", 7, 0, ["reverse", x]]]
        if w <= 4:
            # different variables with the same declared range behind undecided conditions over a fourth variable: an If
            # is not "its first arm" (the backend identifies values by the name an interval carries)
            z, dd = G.bvs("c", w), G.bvs("d", w)
            c1, c2 = ["eq", dd, ["bvv", 1, w]], ["ult", dd, ["bvv", 2, w]]
            i1, i2 = ["ite", c1, x, y], ["ite", c2, x, z]
            for d in (["eq", i1, i2], ["ne", i1, i2], ["sub", i1, i2], ["eq", i1, x], ["ult", i1, i2], ["xor", i1, ["ite", c2, x, y]], ["eq", ["ite", c1, x, y], ["ite", c1, y, x]]):
                for _ in range(4):
                    same = rand_ann(rng, w)
                    anns = {f"a{w}": (w, same), f"b{w}": (w, same), f"c{w}": (w, same), f"d{w}": (w, None)}
                    res.count("same_range_different_variable_cases")
                    try:
                        run_case(res, rng, d, anns, [], "templates")
                    except Exception:  # noqa: BLE001
                        res.violation({"kind": "harness-error", "what": "case-raised", "case": {"expr": d}, "tb": traceback.format_exc()[-1500:]})
        for d in shapes:
            for _ in range(6 if w <= 4 else 3):
                anns = {f"a{w}": (w, rand_ann(rng, w)), f"b{w}": (w, rand_ann(rng, w))}
                cons = [["ult", x, y]] if rng.random() < 0.3 else []
                try:
                    run_case(res, rng, d, anns, cons, "templates")
                except Exception:  # noqa: BLE001
                    res.violation({"kind": "harness-error", "what": "case-raised", "case": {"expr": d}, "tb": traceback.format_exc()[-1500:]})


def replay(w, res):
    case = w.get("case") or {}
    if "expr" not in case or "annotations" not in case:
        res.inconc("nothing to replay")
        return
    from vf.ref import bvsem

    anns = {}
    for n, t in case["annotations"].items():
        width = bvsem.variables(["bvs", n, int("".join(ch for ch in n[1:] if ch.isdigit()))])[n][1]
        anns[n] = (width, tuple(t) if t else None)
    run_case(res, random.Random(0), case["expr"], anns, case.get("constraints", []), "replay")
