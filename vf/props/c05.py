"""C05 — expression width, variables, concreteness and depth are reported accurately."""
from __future__ import annotations

import random
import struct
import traceback

PID = "C05"
LEVEL = "exploration"
RULE = (
    "ASTs are produced by every route the property names (public construction incl. rewrites and eager folding, "
    "annotation changes, replace/replace_dict on leaves and inner nodes, canonicalize, excavate/burrow_ite, "
    "claripy.simplify and backends.z3._abstract round trips, VSA set operations with substitution, FP and string "
    "construction); every node reachable from every produced AST is judged once (dedup by claripy hash).  "
    "Monitor per node: length == width of the Z3 sort of claripy's own translation (BV size, FP ebits+sbits) and == "
    "the width the descriptor denotes; variables >= names found by an independent leaf traversal and >= the free "
    "constants of the Z3 term; symbolic==False => no symbol leaf; depth == 1 + max child depth; concrete => "
    "concrete_value equals the value of the Z3-folded term.  Non-trivial node: not a leaf; distinct by node hash."
    " Session 4: float constants built with equal copies of the sort object; set operations over constants with one operand replaced by a variable."
)
ASSUMPTIONS = ["over-approximate `variables` is allowed by the statement and not flagged"]


def floors(tier):
    return {"nodes_checked": 20000, "route:replace": 20, "route:simplify": 20, "route:z3-abstract": 20, "route:setop-replace": 5, "concrete_values_checked": 500}


def plan(tier, seed):
    q = tier == "quick"
    S = [{"kind": "bv", "stream": i, "n": 700 if q else 8000} for i in range(8 if q else 16)]
    S += [{"kind": "tmpl", "stream": i, "n": 4 if q else 40} for i in range(4 if q else 8)]
    S += [{"kind": "fp", "stream": i, "n": 500 if q else 5000} for i in range(2 if q else 4)]
    S += [{"kind": "str", "stream": i, "n": 400 if q else 4000} for i in range(2 if q else 4)]
    return S


def own_leaves(ast, acc):
    """independent traversal: names of symbol leaves below ast"""
    import claripy

    stack = [ast]
    seen = set()
    while stack:
        x = stack.pop()
        if not isinstance(x, claripy.ast.Base):
            continue
        if id(x) in seen:
            continue
        seen.add(id(x))
        if x.op in ("BVS", "BoolS", "FPS", "StringS"):
            acc.add(x.args[0])
        else:
            stack.extend(x.args)
    return acc


def all_nodes(ast, seen):
    import claripy

    out = []
    stack = [ast]
    while stack:
        x = stack.pop()
        if not isinstance(x, claripy.ast.Base):
            continue
        h = x.hash()
        if h in seen:
            continue
        seen.add(h)
        out.append(x)
        stack.extend(x.args)
    return out


def z3_width(t):
    import z3

    s = t.sort()
    k = s.kind()
    if k == z3.Z3_BV_SORT:
        return s.size()
    if k == z3.Z3_FLOATING_POINT_SORT:
        return s.ebits() + s.sbits()
    return None


def check_node(x, res, route):
    import claripy
    import z3

    from vf.mon import sem
    from vf.ref import strref, z3ref

    res.count("nodes_checked")
    probs = []
    kids = [a for a in x.args if isinstance(a, claripy.ast.Base)]
    # depth
    want_depth = 1 + max((a.depth for a in kids), default=0)
    if x.op in ("BVS", "BVV", "BoolS", "BoolV", "FPS", "FPV", "StringS", "StringV"):
        want_depth = 1
    if x.depth != want_depth:
        probs.append({"what": "depth", "observed": x.depth, "expected": want_depth})
    # variables / symbolic by own traversal
    names = own_leaves(x, set())
    if not names <= set(x.variables):
        probs.append({"what": "variables-missing", "observed": sorted(x.variables), "expected": sorted(names)})
    if not x.symbolic and names:
        probs.append({"what": "concrete-but-has-symbols", "observed": x.symbolic, "expected": sorted(names)})
    if x.concrete != (not x.symbolic):
        probs.append({"what": "concrete-flag", "observed": x.concrete})
    # length vs class
    if isinstance(x, claripy.ast.Bool) and x.length is not None:
        probs.append({"what": "bool-has-length", "observed": x.length})
    if isinstance(x, claripy.ast.Bits) and not isinstance(x.length, int):
        probs.append({"what": "bits-without-length", "observed": x.length})
    # Z3 side
    T = None
    try:
        T = sem.claripy_z3(x)
    except (claripy.errors.ClaripyError, z3.Z3Exception):
        res.count("z3_untranslatable")
    if T is not None:
        res.count("z3_translated")
        w = z3_width(T)
        if isinstance(x, claripy.ast.Bits) and w != x.length:
            probs.append({"what": "length-vs-z3-sort", "observed": x.length, "expected": w})
        if isinstance(x, claripy.ast.Bool) and T.sort().kind() != z3.Z3_BOOL_SORT:
            probs.append({"what": "bool-vs-z3-sort", "observed": str(T.sort())})
        fc = set(z3ref.free_consts(T))
        if not fc <= set(x.variables):
            probs.append({"what": "variables-missing-z3", "observed": sorted(x.variables), "expected": sorted(fc)})
        if not x.symbolic:
            cv = x.concrete_value
            if not isinstance(cv, claripy.ast.Base):
                res.count("concrete_values_checked")
                v = z3.simplify(T)
                ok = None
                if z3.is_bv_value(v):
                    ok = isinstance(cv, int) and not isinstance(cv, bool) and cv == v.as_long()
                    exp = v.as_long()
                elif z3.is_true(v) or z3.is_false(v):
                    ok = cv is z3.is_true(v)
                    exp = z3.is_true(v)
                elif z3.is_fp_value(v) or (z3.is_fp(v) and z3.is_app(v) and v.num_args() == 0):
                    S = "F" if v.sort().ebits() == 8 else "D"
                    lit = z3.fpBVToFP(z3.BitVecVal(_fbits(cv, S), 32 if S == "F" else 64, ctx=z3ref.ctx()), v.sort(), ctx=z3ref.ctx()) if isinstance(cv, float) else None
                    ok = lit is not None and z3.is_true(z3.simplify(lit == v))
                    exp = str(v)
                elif z3.is_string_value(v):
                    exp = strref.contents(v)
                    ok = isinstance(cv, str) and [ord(c) for c in cv] == exp
                if ok is False:
                    probs.append({"what": "concrete_value", "observed": repr(cv), "expected": exp})
                elif ok is None:
                    res.count("concrete_value_not_folded_by_z3")
    for p in probs:
        res.violation({"kind": "metadata", "route": route, "node": repr(x)[:300], "op": x.op, **p})


def _fbits(x, S):
    if S == "F":
        return struct.unpack("<I", struct.pack("<f", x))[0]
    return struct.unpack("<Q", struct.pack("<d", x))[0]


def run_shard(spec, res):
    import claripy

    from vf.gen import astwork, fpbuild, strbuild
    from vf.gen import build as bvb
    from vf.gen import exprgen as G
    from vf.mon import sem
    from vf.props import c02, c03
    from vf.ref import bvsem, fpref, strref

    rng = random.Random(f"{spec['seed']}:{PID}:{spec['kind']}:{spec.get('stream')}")
    seen = set()
    keep = []

    def feed(route, a, d=None, want_sort=None):
        keep.append(a)
        res.count("route:" + route)
        if want_sort is not None:
            got = sem.sort_of_ast(a)
            if want_sort[0] in ("bv", "bool") and got != tuple(want_sort):
                res.violation({"kind": "metadata", "route": route, "what": "width-vs-written", "case": d, "observed": got, "expected": want_sort})
        for x in all_nodes(a, seen):
            res.case(["node", x.hash()], nontrivial=x.depth > 1, sample={"route": route, "node": repr(x)[:160], "length": x.length, "variables": sorted(x.variables), "depth": x.depth, "symbolic": x.symbolic})
            try:
                check_node(x, res, route)
            except Exception as e:  # noqa: BLE001
                res.violation({"kind": "metadata", "route": route, "what": "oracle-exception", "node": repr(x)[:300], "observed": repr(e), "tb": traceback.format_exc()[-1500:]})

    k = spec["kind"]
    if k == "bv":
        for route, a, d in astwork.routes(rng, spec["n"]):
            ws = sem.sort_of_desc(d) if d is not None and route in ("build", "annotated", "simplify", "z3-abstract", "excavate", "burrow") else None
            feed(route, a, d, ws)
    elif k == "tmpl":
        for _ in range(spec["n"]):
            for d in G.templates(rng):
                if not bvb.well_formed(d):
                    continue
                try:
                    a = bvb.build(d)
                except claripy.errors.ClaripyError:
                    continue
                feed("build", a, d, sem.sort_of_desc(d))
                if rng.random() < 0.2:
                    try:
                        feed("annotated", astwork.build_annotated(d, rng), d, sem.sort_of_desc(d))
                    except claripy.errors.ClaripyError:
                        pass
    elif k == "fp":
        # constants written as Python floats that are not exactly representable, with the sort object itself and with
        # equal copies of it (unpickled, rebuilt, taken from another expression)
        import pickle

        for S_, mk in (("F", claripy.FSORT_FLOAT), ("D", claripy.FSORT_DOUBLE)):
            copies = [mk, pickle.loads(pickle.dumps(mk)), claripy.fp.FSort(mk.name, mk.exp, mk.mantissa), claripy.FPS("srt" + S_, mk, explicit_name=True).args[1], claripy.fp.FSort.from_size(mk.length)]
            for sort_ in copies:
                for val in (0.1, 1 / 3, 16777217.0, 1e-45, 3.4028235677973366e38, -0.1, 1e-320, 2.0**-150, 123456789.0, float("inf"), 0.0, -0.0, 1.0):
                    for val_ in (val, rng.uniform(-1e6, 1e6)):
                        try:
                            a = claripy.FPV(val_, sort_)
                        except claripy.errors.ClaripyError:
                            continue
                        res.count("fp_constants_with_sort_copies")
                        feed("fpv-sort-copy", a, ["fpv-py", repr(val_), S_, "identical-sort" if sort_ is mk else "equal-sort"], None)
                        b = claripy.FPV(val_, mk)
                        if a is not b:
                            res.violation({"kind": "metadata", "route": "fpv-sort-copy", "what": "same-constant-different-object", "case": ["fpv-py", repr(val_), S_], "observed": [repr(a.args), repr(b.args)]})
        for i in range(spec["n"]):
            d = c02.tree_case(rng, rng.choice("FD"), rng.choice([1, 2, 3]), concrete=rng.random() < 0.4) if i % 3 else c02.sym_case(rng)
            try:
                a = fpbuild.build(d)
            except claripy.errors.ClaripyError:
                continue
            so = fpref.sort_of(d)
            feed("build-fp", a, d, so if so[0] != "fp" else None)
            if so[0] == "fp" and a.length != fpref.nbits(so[1]):
                res.violation({"kind": "metadata", "route": "build-fp", "what": "width-vs-written", "case": d, "observed": a.length, "expected": fpref.nbits(so[1])})
            if i % 5 == 0:
                try:
                    feed("simplify", claripy.simplify(a), d)
                except claripy.errors.ClaripyError:
                    res.count("simplify_raised")
    elif k == "str":
        for i in range(spec["n"]):
            d = c03.rand_tree(rng, 2)
            sym = c03.symbolize(d, rng) if i % 2 else None
            if sym:
                d = sym[0]
            try:
                a = strbuild.build(d)
            except Exception:  # noqa: BLE001
                continue
            so = strref.sort_of(d)
            feed("build-str", a, d, so if so[0] != "str" else None)


def replay(w, res):
    res.inconc("C05 replay: re-run the shard named in the witness (nodes are not serialisable)")
