"""C23 — discrete strided-interval sets and region value sets are sound abstractions."""
from __future__ import annotations

import itertools
import random

PID = "C23"
LEVEL = "exploration"
RULE = (
    "a case is one operation or query on a real DiscreteStridedIntervalSet (built from 2..4 member intervals, or "
    "produced by StridedInterval.union under _allow_dsis(True)) or on a real ValueSet (1..3 regions).  gamma(DSIS) is "
    "the union of the members' concretisations, gamma(ValueSet) maps each region to the concretisation of its "
    "offsets; both are computed from the stored numbers by vf/ref/sigamma.py.  Oracle: for + - & | ^ // % << >> "
    "concat -x ~x extract zero/sign-extend and the comparisons, every concrete result of member values must be in "
    "gamma(result) (for value sets: in the result's interval for the same region, or in the plain interval the "
    "operation documents it returns); union/widen contain both operands, intersection every common member; "
    "eval returns members only, pairwise distinct, and min(n, |gamma|) of them when the members do not overlap; "
    "min/max are the extreme members; cardinality is at least |gamma| and at most the sum over members (documented "
    "over-approximation).  Domain: member intervals from the exhaustive well-formed domain at widths 2..4 and "
    "boundary-biased random ones at 8/16/32 bits.  Non-trivial: the set has at least two members / a region with a "
    "non-singleton interval."
    " Session 4: reflected operators with the set on the right; flat-interval consistency of every value-set result; empty value set joined with plain values; regions inserted in another order."
)
ASSUMPTIONS = [
    "well-formed member intervals only (see C21)",
    "ValueSet operations the source itself marks as unfinished hacks (concat, reverse) are exercised for crashes only; their results are judged only when they are plain intervals",
]

REGIONS = ["global", "stack_0x400100", "heap_17"]


def floors(tier):
    q = tier == "quick"
    return {"judged:dsis": 20000 if q else 400000, "judged:dsis-result": 1000 if q else 20000, "judged:vs": 5000 if q else 100000, "judged:dsis-query": 1000 if q else 10000, "judged:vs-query": 500 if q else 8000}


def plan(tier, seed):
    q = tier == "quick"
    S = [{"kind": "dsis", "w": w, "stream": i, "n": 6000 if q else 40000} for w in (2, 3, 4) for i in range(2 if q else 4)]
    S += [{"kind": "dsis", "w": w, "stream": 0, "n": 3000 if q else 20000} for w in (8, 16, 32)]
    S += [{"kind": "auto", "w": w, "stream": i, "n": 12000 if q else 60000} for w in (3, 4, 8) for i in range(1 if q else 3)]
    S += [{"kind": "vs", "w": w, "stream": i, "n": 6000 if q else 30000} for w in (3, 4, 8, 32) for i in range(1 if q else 3)]
    S += [{"kind": "vsast", "n": 1500 if q else 10000}]
    return S


# ------------------------------------------------------------------------------------------ abstraction helpers
def is_dsis(o):
    return hasattr(o, "_si_set")


def is_vs(o):
    return hasattr(o, "_regions")


def members_of(o):
    """list of SI tuples whose union is gamma(o) (plain interval or DSIS)"""
    from vf.mon import vsaops as V

    if is_dsis(o):
        out = []
        for s in o._si_set:
            out += members_of(s)
        return out
    return [V.tup(o)]


def in_abs(o, v):
    from vf.ref import sigamma as G

    return any(G.member(t, v) for t in members_of(o))


def describe(o):
    if o is None or o is NotImplemented:
        return repr(o)
    if is_vs(o):
        return {r: describe(s) for r, s in o.regions.items()}
    try:
        return [list(t) for t in members_of(o)]
    except Exception:  # noqa: BLE001
        return repr(o)[:80]


def apply(res, op, fn, *a):
    try:
        return True, fn(*a)
    except Exception as e:  # noqa: BLE001
        res.count("ops_raised")
        res.count("ops_raised:" + op)
        res.setadd("ops_raised_types", f"{op}:{type(e).__name__}:{str(e)[:70]}")
        return False, None


def _viol(res, what, operands, observed, **kw):
    res.count("wrong:" + what)
    res.violation({"kind": "vsa-set", "mon": "M-si", "what": what, "op": what, "operands": operands, "observed": observed, **kw})


def mk_dsis(ts, bits):
    from claripy.backends.backend_vsa import DiscreteStridedIntervalSet

    from vf.mon import vsaops as V

    return DiscreteStridedIntervalSet(bits=bits, si_set={V.mk(t) for t in ts})


def pick_members(ts, rng, wide):
    from vf.ref import sigamma as G

    out = []
    for t in ts:
        out += G.sample_members(t, rng, 4) if wide else sorted(G.gamma(t))
    return sorted(set(out))


# ------------------------------------------------------------------------------------------ DSIS
BIN_D = {
    "add": (lambda A, B: A + B, "add"),
    "sub": (lambda A, B: A - B, "sub"),
    "and": (lambda A, B: A & B, "and"),
    "or": (lambda A, B: A | B, "or"),
    "xor": (lambda A, B: A ^ B, "xor"),
    "udiv": (lambda A, B: A // B, "udiv"),
    "mod": (lambda A, B: A % B, "urem"),
    "shl": (lambda A, B: A << B, "shl"),
    "ashr": (lambda A, B: A >> B, "ashr"),
    "radd": (lambda A, B: B + A, "add"),
    # the set on the right-hand side of a plain interval (reflected operators)
    "rsub": (lambda A, B: B - A, "rsub"),
    "rudiv": (lambda A, B: B // A, "rudiv"),
    "rmod": (lambda A, B: B % A, "rurem"),
    "rand": (lambda A, B: B & A, "and"),
    "ror": (lambda A, B: B | A, "or"),
    "rxor": (lambda A, B: B ^ A, "xor"),
}
_RSEM = {"rsub": "sub", "rudiv": "udiv", "rurem": "urem"}
CMP_D = {"sle": (lambda A, B: A.SLE(B), "sle"), "sgt": (lambda A, B: A.SGT(B), "sgt"), "eq": (lambda A, B: A == B, "eq"), "ne": (lambda A, B: A != B, "ne"), "ult": (lambda A, B: A.ULT(B), "ult"), "ule": (lambda A, B: A.ULE(B), "ule"), "ugt": (lambda A, B: A.UGT(B), "ugt"), "uge": (lambda A, B: A.UGE(B), "uge"), "slt": (lambda A, B: A.SLT(B), "slt"), "sge": (lambda A, B: A.SGE(B), "sge")}


def judge_members(res, what, operands_desc, result, pairs, conc, tag):
    if result is None or result is NotImplemented or is_vs(result) or not hasattr(result, "lower_bound"):
        res.count("not_judgeable_result:" + what)
        return
    miss = []
    for ms in pairs:
        v = conc(*ms)
        if v is None:
            continue
        if not in_abs(result, v):
            miss.append([list(ms), v])
            if len(miss) >= 5:
                break
    res.count("judged:" + tag)
    res.count(f"judged:{tag}:{what}")
    if is_dsis(result):
        res.count("judged:dsis-result")
    if miss:
        _viol(res, what, operands_desc, describe(result), missing=miss)


def dsis_shard(spec, res, rng):
    from vf.mon import vsaops as V
    from vf.props.c21 import rand_si
    from vf.ref import bvsem
    from vf.ref import sigamma as G

    w = spec["w"]
    wide = w > 4
    dom = None if wide else G.all_sis(w, aligned_only=True)
    pick = (lambda: rand_si(rng, w)) if wide else (lambda: rng.choice(dom))
    m = bvsem.mask(w)
    for _ in range(spec["n"]):
        ts = [pick() for _ in range(rng.choice([2, 2, 3, 4]))]
        if wide:
            ts = [t for t in ts if G.count(t) <= 64] or [(w, 0, 5, 5, False, False), (w, 0, 9, 9, False, False)]
        A = mk_dsis(ts, w)
        ga = pick_members(ts, rng, wide)
        other_is_dsis = rng.random() < 0.35
        tb = [pick() for _ in range(2)] if other_is_dsis else [pick()]
        if wide:
            tb = [t for t in tb if G.count(t) <= 64] or [(w, 0, 3, 3, False, False)]
        gb = pick_members(tb, rng, wide)

        def B():
            return mk_dsis(tb, w) if len(tb) > 1 else V.mk(tb[0])

        desc = [[list(t) for t in ts], [list(t) for t in tb]]
        res.case(["dsis", desc], len(ts) >= 2, sample={"dsis": desc[0], "other": desc[1]})
        op = rng.choice(list(BIN_D) + list(CMP_D) + ["neg", "not", "extract", "zext", "sext", "concat", "union", "intersection", "widen", "query", "seq", "seq"])
        if op == "seq":
            # a set that has been asked something (comparisons collapse it) is enlarged and asked again: nothing
            # remembered from before the union may answer for the larger set
            tc = [pick() for _ in range(rng.choice([1, 2]))]
            if wide:
                tc = [t for t in tc if G.count(t) <= 64] or [(w, 0, 77 % (1 << w), 77 % (1 << w), False, False)]
            gc_ = pick_members(tc, rng, wide)
            for first in rng.sample(["ult", "eq", "uge", "slt", "stride", "widen", "collapse", "card"], 2):
                if first in CMP_D:
                    apply(res, "seq-" + first, CMP_D[first][0], A, B())
                elif first == "stride":
                    apply(res, "seq-stride", lambda X: X.stride, A)
                elif first == "widen":
                    apply(res, "seq-widen", lambda X, Y: X.widen(Y), A, B())
                elif first == "collapse":
                    apply(res, "seq-collapse", lambda X: X.collapse(), A)
                else:
                    apply(res, "seq-card", lambda X: X.cardinality, A)
            ok, A2 = apply(res, "seq-union", lambda X, Y: X.union(Y), A, mk_dsis(tc, w) if len(tc) > 1 else V.mk(tc[0]))
            if not ok or not hasattr(A2, "lower_bound"):
                continue
            g2 = sorted(set(ga + gc_))
            desc2 = [desc[0] + [list(t) for t in tc], desc[1], "after-earlier-queries"]
            judge_members(res, "seq-union", desc2, A2, ((v,) for v in g2), lambda v: v, "dsis")
            nm = rng.choice(["ult", "ule", "ugt", "eq", "slt", "sge"])
            fn, sem = CMP_D[nm]
            ok, r = apply(res, "seq-" + nm, fn, A2, B())
            if ok:
                try:
                    admits = V.bool_values(r)
                    seen = {bvsem.cmpop(sem, a, b, w) for a in g2 for b in gb}
                    res.count("judged:dsis")
                    res.count("judged:dsis:seq-cmp")
                    if seen - admits:
                        _viol(res, "seq-" + nm, desc2, sorted(admits), missing=sorted(seen - admits))
                except Exception:  # noqa: BLE001
                    res.count("not_a_boolresult:seq-" + nm)
            ok, r = apply(res, "seq-widen2", lambda X, Y: X.widen(Y), A2, B())
            if ok:
                judge_members(res, "seq-widen", desc2, r, ((v,) for v in g2 + gb), lambda v: v, "dsis")
            ok, r = apply(res, "seq-add", lambda X, Y: X + Y, A2, B())
            if ok:
                judge_members(res, "seq-add", desc2, r, itertools.product(g2, gb), lambda a, b: (a + b) & m, "dsis")
            if is_dsis(A2) and not wide:
                dsis_queries(res, A2, ts + tc, desc2, rng, wide, w)
            continue
        if op in BIN_D:
            fn, sem = BIN_D[op]
            if sem in ("shl", "ashr") and any(G.count(t) > 40 for t in tb):
                continue
            if sem in _RSEM:
                # the other operand is a plain interval or a Python integer, and stands on the left
                if len(tb) > 1:
                    tb = tb[:1]
                    gb = pick_members(tb, rng, wide)
                    desc = [desc[0], [list(tb[0])]]
                left = B()
                if rng.random() < 0.3 and gb:
                    gb = [rng.choice(gb)]
                    left = gb[0]
                    desc = [desc[0], ["int", left]]
                ok, r = apply(res, op, fn, A, left)
                if ok:
                    judge_members(res, op, desc, r, itertools.product(ga, gb), lambda a, b: None if _RSEM[sem] in ("udiv", "urem") and a == 0 else bvsem.bvop(_RSEM[sem], b, a, w), "dsis")
                continue
            ok, r = apply(res, op, fn, A, B())
            if ok:
                judge_members(res, op, desc, r, itertools.product(ga, gb), lambda a, b: None if sem in ("udiv", "urem") and b == 0 else bvsem.bvop(sem, a, b, w), "dsis")
        elif op in CMP_D:
            fn, sem = CMP_D[op]
            ok, r = apply(res, op, fn, A, B())
            if ok:
                try:
                    admits = V.bool_values(r)
                except Exception:  # noqa: BLE001
                    res.count("not_a_boolresult:" + op)
                    continue
                seen = {bvsem.cmpop(sem, a, b, w) for a in ga for b in gb}
                res.count("judged:dsis")
                res.count("judged:dsis:" + op)
                if seen - admits:
                    _viol(res, op, desc, sorted(admits), missing=sorted(seen - admits))
        elif op in ("neg", "not"):
            ok, r = apply(res, op, (lambda X: -X) if op == "neg" else (lambda X: ~X), A)
            if ok:
                judge_members(res, op, desc, r, ((a,) for a in ga), (lambda a: (-a) & m) if op == "neg" else (lambda a: (~a) & m), "dsis")
        elif op == "extract":
            hi = rng.randrange(w)
            lo = rng.randrange(hi + 1)
            ok, r = apply(res, op, lambda X: X.extract(hi, lo), A)
            if ok:
                judge_members(res, op, desc + [[hi, lo]], r, ((a,) for a in ga), lambda a: (a >> lo) & bvsem.mask(hi - lo + 1), "dsis")
        elif op in ("zext", "sext"):
            k = rng.choice([1, 2, 8])
            ok, r = apply(res, op, (lambda X: X.zero_extend(w + k)) if op == "zext" else (lambda X: X.sign_extend(w + k)), A)
            if ok:
                judge_members(res, op, desc + [k], r, ((a,) for a in ga), (lambda a: a) if op == "zext" else (lambda a: bvsem.signed(a, w) & bvsem.mask(w + k)), "dsis")
        elif op == "concat":
            ok, r = apply(res, op, lambda X, Y: X.concat(Y), A, B())
            if ok:
                judge_members(res, op, desc, r, itertools.product(ga, gb), lambda a, b: (a << w) | b, "dsis")
        elif op in ("union", "widen"):
            ok, r = apply(res, op, lambda X, Y: getattr(X, op)(Y), A, B())
            if ok:
                judge_members(res, op, desc, r, ((v,) for v in ga + gb), lambda v: v, "dsis")
        elif op == "intersection":
            ok, r = apply(res, op, lambda X, Y: X.intersection(Y), A, B())
            if ok:
                sb = set(gb)
                if wide:
                    sb = {v for v in gb if any(G.member(t, v) for t in ts)} | {v for v in ga if any(G.member(t, v) for t in tb)}
                    common = sorted(sb)
                else:
                    common = [v for v in ga if v in sb]
                judge_members(res, op, desc, r, ((v,) for v in common), lambda v: v, "dsis")
        else:
            dsis_queries(res, A, ts, desc, rng, wide, w)


def dsis_queries(res, A, ts, desc, rng, wide, w):
    from vf.ref import bvsem
    from vf.ref import sigamma as G

    m = bvsem.mask(w)
    res.count("judged:dsis-query")
    total = sum(G.count(t) for t in ts)
    if not wide:
        mem = set()
        for t in ts:
            mem |= G.gamma(t)
        card = len(mem)
    else:
        mem, card = None, None
    ok, c = apply(res, "cardinality", lambda X: X.cardinality, A)
    if ok and (c > total or (card is not None and c < card)):
        _viol(res, "dsis-cardinality", desc, c, expected=[card, total])
    for n in (1, 2, 3, 100):
        ok, got = apply(res, "eval", lambda X: X.eval(n), A)
        if ok:
            vals = [g & m for g in got]
            if any(not any(G.member(t, v) for t in ts) for v in vals):
                _viol(res, "dsis-eval-non-member", desc, list(got)[:12], n=n)
            elif len(set(vals)) != len(vals) or len(vals) > n:
                _viol(res, "dsis-eval-duplicates-or-too-many", desc, list(got)[:12], n=n)
            elif card is not None and len(vals) < min(n, card):
                _viol(res, "dsis-eval-too-few", desc, list(got)[:12], n=n, expected_count=min(n, card))
    if mem:
        for signed in (False, True):
            key = (lambda v: bvsem.signed(v, w)) if signed else (lambda v: v)
            for name, want in (("min", min(mem, key=key)), ("max", max(mem, key=key))):
                ok, got = apply(res, name, lambda X: getattr(X, name)(signed=signed), A)
                if ok and (got is None or (got & m) != want):
                    _viol(res, "dsis-" + name, desc, got, expected=want, signed=signed)


def auto_shard(spec, res, rng):
    """plain interval operations while _allow_dsis(True): unions inside the transfer functions now build DSIS"""
    from claripy.backends.backend_vsa.strided_interval import _allow_dsis

    from vf.mon import vsaops as V
    from vf.props.c21 import rand_si
    from vf.ref import sigamma as G

    w = spec["w"]
    wide = w > 4
    dom = None if wide else G.all_sis(w, aligned_only=True)
    with _allow_dsis(True):
        for _ in range(spec["n"]):
            ta, tb = (rand_si(rng, w), rand_si(rng, w)) if wide else (rng.choice(dom), rng.choice(dom))
            if wide and (G.count(ta) > 200 or G.count(tb) > 200):
                continue
            ga, gb = pick_members([ta], rng, wide), pick_members([tb], rng, wide)
            op = rng.choice(["union", "union", "add", "sub", "mul", "and", "or", "xor", "lshr", "ashr", "shl", "udiv", "mod", "sext", "concat"])
            desc = [[list(ta)], [list(tb)]]
            res.case(["auto", op, desc], True, sample={"op": op, "operands": desc})
            if op == "union":
                ok, r = apply(res, "auto-union", lambda X, Y: X.union(Y), V.mk(ta), V.mk(tb))
                if ok:
                    judge_members(res, "auto-union", desc, r, ((v,) for v in ga + gb), lambda v: v, "dsis")
                    if is_dsis(r):
                        # go on computing with the set that was built
                        tc = rand_si(rng, w) if wide else rng.choice(dom)
                        if wide and G.count(tc) > 200:
                            continue
                        gc = pick_members([tc], rng, wide)
                        gr = sorted(set(ga + gb))
                        from vf.ref import bvsem

                        op2 = rng.choice(["add", "sub", "and", "or", "xor"])
                        ok, r2 = apply(res, "auto-" + op2, BIN_D[op2][0], r, V.mk(tc))
                        if ok:
                            judge_members(res, "auto-then-" + op2, desc + [[list(tc)]], r2, itertools.product(gr, gc), lambda a, b: bvsem.bvop(BIN_D[op2][1], a, b, w), "dsis")
            elif op == "sext":
                from vf.ref import bvsem

                ok, r = apply(res, "auto-sext", lambda X: X.sign_extend(w + 3), V.mk(ta))
                if ok:
                    judge_members(res, "auto-sext", desc, r, ((a,) for a in ga), lambda a: bvsem.signed(a, w) & bvsem.mask(w + 3), "dsis")
            elif op == "concat":
                ok, r = apply(res, "auto-concat", lambda X, Y: X.concat(Y), V.mk(ta), V.mk(tb))
                if ok:
                    judge_members(res, "auto-concat", desc, r, itertools.product(ga, gb), lambda a, b: (a << w) | b, "dsis")
            else:
                fn, conc, exempt = V.BIN[op]
                if op in ("shl", "lshr", "ashr") and G.count(tb) > 40:
                    continue
                ok, r = apply(res, "auto-" + op, fn, V.mk(ta), V.mk(tb))
                if ok:
                    judge_members(res, "auto-" + op, desc, r, itertools.product(ga, gb), lambda a, b: None if exempt and exempt(a, b, w) else conc(a, b, w), "dsis")


# ------------------------------------------------------------------------------------------ ValueSet
def mk_vs(regs, w):
    from claripy.backends.backend_vsa import ValueSet

    from vf.mon import vsaops as V

    vs = ValueSet(bits=w)
    for r, t in regs.items():
        vs._merge_si(r, 0, V.mk(t))
    return vs


def vs_region_judge(res, what, desc, result, regs_members, conc, allow_plain=True):
    """regs_members: region -> iterable of member tuples; result must contain conc(*ms) in the same region (ValueSet
    result) or at all (plain interval result)"""
    from vf.mon import vsaops as V
    from vf.ref import sigamma as G

    if result is None or result is NotImplemented:
        res.count("not_judgeable_result:" + what)
        return
    miss = []
    for region, pairs in regs_members.items():
        for ms in pairs:
            v = conc(*ms)
            if v is None:
                continue
            if is_vs(result):
                si = result.regions.get(region)
                okm = si is not None and in_abs(si, v)
            elif hasattr(result, "lower_bound") and allow_plain:
                okm = in_abs(result, v)
            else:
                res.count("not_judgeable_result:" + what)
                return
            if not okm:
                miss.append([region, list(ms), v])
                if len(miss) >= 5:
                    break
    res.count("judged:vs")
    res.count("judged:vs:" + what)
    if miss:
        _viol(res, what, desc, describe(result), missing=miss)
        return
    if is_vs(result):
        # the value set's own flattened interval (what an interval on the left-hand side of an operation reads when the
        # set has one value) must contain base + offset of every member
        try:
            flat = result.stridedinterval()
            mm = (1 << result.bits) - 1
            for region, si in result.regions.items():
                base = result._region_base_addrs.get(region)
                bases = [0] if base is None else list(base.eval(2))
                for v in list(si.eval(3)):
                    for b0 in bases:
                        res.count("judged:vs-flat-interval")
                        if not in_abs(flat, (b0 + v) & mm):
                            _viol(res, what + ":flat-interval-misses-member", desc, describe(result), missing=[[region, b0, v]], flat=describe(flat))
                            return
        except Exception as e:  # noqa: BLE001
            res.count("flat_interval_check_raised")
            res.setadd("flat_interval_check_raised", f"{type(e).__name__}:{str(e)[:80]}")


def vs_shard(spec, res, rng):
    from vf.mon import vsaops as V
    from vf.props.c21 import rand_si
    from vf.ref import bvsem
    from vf.ref import sigamma as G

    w = spec["w"]
    wide = w > 4
    dom = None if wide else G.all_sis(w, aligned_only=True)

    def pick():
        while True:
            t = rand_si(rng, w) if wide else rng.choice(dom)
            if G.count(t) <= 300:
                return t

    m = bvsem.mask(w)
    for _ in range(spec["n"]):
        nreg = rng.choice([1, 1, 2, 3])
        regs = {r: pick() for r in rng.sample(REGIONS, nreg)}
        gm = {r: pick_members([t], rng, wide) for r, t in regs.items()}
        A = mk_vs(regs, w)
        tb = pick()
        gb = pick_members([tb], rng, wide)
        desc = [{r: list(t) for r, t in regs.items()}, list(tb)]
        res.case(["vs", desc], any(t[1] != 0 for t in regs.values()), sample={"valueset": desc[0], "other": desc[1]})
        op = rng.choice(["add", "radd", "sub", "and", "mod", "subvs", "union", "widen", "intersection", "eq", "eqsi", "query", "extract", "concat", "lshr", "emptyunion"])
        if op == "emptyunion":
            # a value set that has become empty (no regions left) joined with plain values
            from claripy.backends.backend_vsa import ValueSet

            E = ValueSet(bits=w) if rng.random() < 0.5 else A.intersection(mk_vs({r: (w, 0, (t[3] + 1) & m, (t[3] + 1) & m, False, False) for r, t in regs.items() if G.count(t) == 1} or {"nowhere": tb}, w))
            if is_vs(E) and not E.regions:
                res.count("empty_valuesets_made")
                for nm in ("union", "widen"):
                    ok, r = apply(res, "vs-empty-" + nm, lambda X, Y: getattr(X, nm)(Y), E, V.mk(tb))
                    if ok and r is not None:
                        res.count("judged:vs")
                        res.count("judged:vs:empty-" + nm)
                        missing = [v for v in gb if not (in_abs(r, v) if not is_vs(r) else any(in_abs(si, v) for si in r.regions.values()))]
                        if missing:
                            _viol(res, "vs-empty-" + nm, [{}, list(tb)], describe(r), missing=missing[:5])
            continue
        if op in ("add", "radd", "sub", "and", "mod"):
            fn = {"add": lambda X, Y: X + Y, "radd": lambda X, Y: Y + X, "sub": lambda X, Y: X - Y, "and": lambda X, Y: X & Y, "mod": lambda X, Y: X % Y}[op]
            sem = {"add": "add", "radd": "add", "sub": "sub", "and": "and", "mod": "urem"}[op]
            ok, r = apply(res, "vs-" + op, fn, A, V.mk(tb))
            if ok:
                vs_region_judge(res, "vs-" + op, desc, r, {rg: itertools.product(ms, gb) for rg, ms in gm.items()}, lambda a, b: None if sem == "urem" and b == 0 else bvsem.bvop(sem, a, b, w))
        elif op in ("subvs", "union", "widen", "intersection", "eq"):
            # (the same regions are put into the second set in another order: dictionaries remember insertion order)
            regs2 = {r: pick() for r in (rng.sample(list(regs), len(regs)) if op == "subvs" or rng.random() < 0.6 else rng.sample(REGIONS, rng.choice([1, 2])))}
            if op == "eq" and rng.random() < 0.4:
                # the same offsets in a subset (or superset) of the regions: the comparison hinges on the regions
                regs2 = {r: regs[r] for r in rng.sample(list(regs), rng.randrange(1, len(regs) + 1))}
                if rng.random() < 0.3:
                    regs2[rng.choice(REGIONS)] = pick()
            gm2 = {r: pick_members([t], rng, wide) for r, t in regs2.items()}
            B = mk_vs(regs2, w)
            desc2 = [desc[0], {r: list(t) for r, t in regs2.items()}]
            if op == "subvs":
                ok, r = apply(res, "vs-sub-vs", lambda X, Y: X - Y, A, B)
                if ok:
                    vs_region_judge(res, "vs-sub-vs", desc2, r, {"*": [(a, b) for rg in regs for a in gm[rg] for b in gm2[rg]]}, lambda a, b: (a - b) & m)
            elif op in ("union", "widen"):
                ok, r = apply(res, "vs-" + op, lambda X, Y: getattr(X, op)(Y), A, B)
                if ok:
                    allm = {rg: [(v,) for v in gm.get(rg, []) + gm2.get(rg, [])] for rg in set(gm) | set(gm2)}
                    vs_region_judge(res, "vs-" + op, desc2, r, allm, lambda v: v, allow_plain=False)
            elif op == "intersection":
                ok, r = apply(res, "vs-intersection", lambda X, Y: X.intersection(Y), A, B)
                if ok:
                    if wide:
                        common = {rg: [(v,) for v in gm[rg] + gm2[rg] if G.member(regs[rg], v) and G.member(regs2[rg], v)] for rg in set(gm) & set(gm2)}
                    else:
                        common = {rg: [(v,) for v in gm[rg] if v in set(gm2[rg])] for rg in set(gm) & set(gm2)}
                    vs_region_judge(res, "vs-intersection", desc2, r, common, lambda v: v, allow_plain=False)
            else:
                for nm, fn in (("vs-eq", lambda X, Y: X == Y), ("vs-ne", lambda X, Y: X != Y)):
                    ok, r = apply(res, nm, fn, A, B)
                    if ok:
                        try:
                            admits = V.bool_values(r)
                        except Exception:  # noqa: BLE001
                            res.count("not_a_boolresult:" + nm)
                            continue
                        seen = set()
                        for r1, ms1 in gm.items():
                            for r2, ms2 in gm2.items():
                                for a in ms1:
                                    for b in ms2:
                                        same = r1 == r2 and a == b
                                        seen.add(same if nm == "vs-eq" else not same)
                        res.count("judged:vs")
                        res.count("judged:vs:" + nm)
                        if seen - admits:
                            _viol(res, nm, desc2, sorted(admits), missing=sorted(seen - admits))
        elif op == "eqsi":
            # a plain interval stands for absolute values, i.e. offsets in the global region
            ok, r = apply(res, "vs-eq-si", lambda X, Y: X == Y, A, V.mk(tb))
            if ok and "global" in regs:
                admits = V.bool_values(r)
                seen = {a == b for a in gm["global"] for b in gb}
                if len(regs) > 1:
                    seen.add(False)
                res.count("judged:vs")
                res.count("judged:vs:vs-eq-si")
                if seen - admits:
                    _viol(res, "vs-eq-si", desc, sorted(admits), missing=sorted(seen - admits))
        elif op == "extract":
            hi = rng.randrange(w)
            lo = rng.randrange(hi + 1)
            ok, r = apply(res, "vs-extract", lambda X: X.extract(hi, lo), A)
            if ok and not is_vs(r):
                vs_region_judge(res, "vs-extract", desc + [[hi, lo]], r, {rg: [(a,) for a in ms] for rg, ms in gm.items()}, lambda a: (a >> lo) & bvsem.mask(hi - lo + 1))
        elif op == "concat":
            apply(res, "vs-concat", lambda X, Y: X.concat(Y), A, V.mk(tb))
            res.count("vs_concat_crash_only")
        elif op == "lshr":
            amt = rng.choice([0, 1, w - 1])
            ok, r = apply(res, "vs-lshr", lambda X: X.LShR(V.mk((w, 0, amt, amt, False, False))), A)
            if ok and not is_vs(r):
                vs_region_judge(res, "vs-lshr", desc + [amt], r, {rg: [(a,) for a in ms] for rg, ms in gm.items()}, lambda a: a >> amt)
        else:
            vs_queries(res, A, regs, desc, w, wide)


def vs_queries(res, A, regs, desc, w, wide):
    from vf.ref import bvsem
    from vf.ref import sigamma as G

    m = bvsem.mask(w)
    res.count("judged:vs-query")
    total = sum(G.count(t) for t in regs.values())
    ok, c = apply(res, "vs-cardinality", lambda X: X.cardinality, A)
    if ok and c != total:
        _viol(res, "vs-cardinality", desc, c, expected=total)
    for n in (1, 2, 5, 400):
        ok, got = apply(res, "vs-eval", lambda X: X.eval(n), A)
        if ok:
            vals = [g & m for g in got]
            if any(not any(G.member(t, v) for t in regs.values()) for v in vals):
                _viol(res, "vs-eval-non-member", desc, list(got)[:12], n=n)
            elif len(vals) > n or (len(regs) == 1 and len(vals) != min(n, total)):
                _viol(res, "vs-eval-count", desc, list(got)[:12], n=n, expected_count=min(n, total))
    if len(regs) == 1 and not wide:
        t = next(iter(regs.values()))
        mem = G.gamma(t)
        for signed in (False, True):
            key = (lambda v: bvsem.signed(v, w)) if signed else (lambda v: v)
            for name, want in (("min", min(mem, key=key)), ("max", max(mem, key=key))):
                ok, got = apply(res, "vs-" + name, lambda X: getattr(X, name)(signed=signed), A)
                if ok and (got is None or (got & m) != want):
                    _viol(res, "vs-" + name, desc, got, expected=want, signed=signed)


def vsast_shard(spec, res, rng):
    """value sets reached the way angr reaches them: claripy.VS / annotated expressions through the VSA backend"""
    import claripy

    from vf.props.c21 import rand_si
    from vf.ref import bvsem
    from vf.ref import sigamma as G

    be = claripy.backends.vsa
    for _ in range(spec["n"]):
        w = rng.choice([8, 32, 64])
        m = bvsem.mask(w)
        region = rng.choice(REGIONS)
        base = rng.choice([0, 0x1000])
        val = rng.getrandbits(min(w, 16))
        tb = rand_si(rng, w)
        if G.count(tb) > 300:
            continue
        gb = G.sample_members(tb, rng, 5)
        vs = claripy.VS(bits=w, region=region, region_base_addr=base, value=val)
        si = claripy.SI(bits=w, stride=tb[1], lower_bound=tb[2], upper_bound=tb[3])
        op = rng.choice(["add", "sub", "and"])
        expr = {"add": vs + si, "sub": vs - si, "and": vs & si}[op]
        # claripy.VS stores value + region_base_addr as the region's offset
        val = (val + base) & m
        desc = [{region: [w, 0, val, val]}, list(tb), op]
        res.case(["vsast", desc], tb[1] != 0)
        ok, r = apply(res, "vsast-" + op, lambda: be.convert(expr))
        if ok:
            vs_region_judge(res, "vsast-" + op, desc, r, {region: [(val, b) for b in gb]}, lambda a, b: bvsem.bvop(op, a, b, w))
            for n in (1, 3):
                ok2, got = apply(res, "vsast-eval", lambda: be.eval(expr, n))
                if ok2 and is_vs(r):
                    si_r = r.regions.get(region)
                    if si_r is not None and any(not in_abs(si_r, g & m) for g in got):
                        _viol(res, "vsast-eval-non-member", desc, list(got)[:8])


def run_shard(spec, res):
    import sys

    sys.setrecursionlimit(400)
    kind = spec["kind"]
    rng = random.Random(f"{spec['seed']}:{PID}:{kind}:{spec.get('w')}:{spec.get('stream')}")
    {"dsis": dsis_shard, "auto": auto_shard, "vs": vs_shard, "vsast": vsast_shard}[kind](spec, res, rng)


def replay(w, res):
    res.inconc("C23 replay: witnesses list the operand tuples; re-run the check (deterministic per seed) to reproduce")
