"""C16 — unsat cores are unsatisfiable subsets of the tracked constraints."""
from __future__ import annotations

import random
import traceback

PID = "C16"
LEVEL = "exploration"
RULE = (
    "a case is one unsat_core() call on a solver created with track=True (Solver, SolverCacheless, SolverComposite, "
    "SolverHybrid) after a random history of adds (1..8 constraints, in orders that reach unsatisfiability through the "
    "pairwise shortcut among the first constraints, through Z3, through a concrete False, and after simplify()), "
    "queries, branches and repeated unsat_core() calls.  Monitor: the returned object must be a flat sequence of Bool "
    "ASTs, each of which is (object identity, else structural hash) one of the constraints handed to add() on that "
    "solver or the solvers it was branched from; when the reference says the solver's own constraints are "
    "unsatisfiable the conjunction of the core must be unsatisfiable too (decided by enumeration over <= 13 variable "
    "bits) - in particular it must not be empty; when they are satisfiable the core must be empty.  Calls that pass "
    "extra constraints are made for coverage but only judged under the same condition on the solver's own "
    "constraints.  Non-trivial: the solver's constraints are unsatisfiable; distinct by (class, add order) hash."
    " Session 4: another solver using the backend between repeated core calls; shards with a conversion cache of six entries."
)
ASSUMPTIONS = ["a core element re-abstracted from Z3 after cache eviction would only match structurally; the LRU cache (10000) is never exceeded here"]

CLASSES = ["Solver", "SolverCacheless", "SolverComposite", "SolverHybrid"]


def floors(tier):
    return {"cores_on_unsat": 200 if tier == "quick" else 3000, "cores_on_sat": 100, "path:pairwise": 20, "path:z3": 50, "path:concrete-false": 20, "path:after-simplify": 15, "path:repeat-call": 30, "path:after-branch": 20}


def plan(tier, seed):
    q = tier == "quick"
    S = [{"kind": "cores", "cls": cls, "stream": i, "n": 120 if q else 1500, "env": {"REUSE_Z3_SOLVER": str(i % 2)}} for cls in CLASSES for i in range(2 if q else 6)]
    # the same with a conversion cache of a few entries (what a solver with more than 10000 constraints meets with the
    # default size): the table that leads from a Z3 term back to the constraint that was added must not depend on it
    S += [{"kind": "cores", "cls": cls, "stream": 10 + i, "n": 80 if q else 800, "small_cache": 6, "env": {"REUSE_Z3_SOLVER": str(i % 2)}} for cls in CLASSES for i in range(1 if q else 2)]
    return S


def run_shard(spec, res):
    import claripy

    from vf.gen import histories as H
    from vf.mon import api
    from vf.ref import refsolver

    rng = random.Random(f"{spec['seed']}:{PID}:{spec['cls']}:{spec.get('stream')}")
    cls = getattr(claripy, spec["cls"])
    cfg = {"cls": spec["cls"], "reuse": int(spec["env"]["REUSE_Z3_SOLVER"]), "track": True}
    if spec.get("small_cache"):
        cfg["ast_cache_size"] = spec["small_cache"]
        claripy.backends.z3._ast_cache_size = spec["small_cache"]
        claripy.backends.z3._tls.__dict__.pop("ast_cache", None)
        res.count("small_cache_shards")

    for it in range(spec["n"]):
        al = H.Alphabet(rng, w=3, nvars=rng.choice([2, 3, 4]), nbools=0)
        uni = refsolver.Universe(al.vars)
        s = cls(track=True)
        added = []  # (descriptor, ast)
        log = []
        keep = []
        path_tags = set()

        def B(d):
            from vf.gen.build import build

            a = build(d)
            keep.append(a)
            return a

        ever_store = {}

        def snapshot():
            for c_ in s.constraints:
                ever_store[c_.hash()] = c_

        def add(ds):
            asts = []
            for d in ds:
                try:
                    a = B(d)
                except claripy.errors.ClaripyZeroDivisionError:
                    continue
                asts.append(a)
                added.append((d, a))
            s.add(asts)
            snapshot()
            log.append(["add", ds])

        def check_core(extra_d=()):
            nonlocal s
            extra = tuple(B(d) for d in extra_d)
            own = [d for d, _ in added]
            ans = refsolver.Answer(uni, own)
            own_unsat = not ans.sat()
            try:
                core = s.unsat_core(extra_constraints=extra) if extra else s.unsat_core()
            except claripy.errors.ClaripyError as e:
                res.violation({"kind": "core", "what": "unsat_core-raised", "config": cfg, "observed": repr(e)[:200], "history": log, "tb": traceback.format_exc()[-1200:]})
                return False
            log.append(["unsat_core", list(extra_d), [repr(c)[:80] for c in core] if isinstance(core, (list, tuple)) else repr(core)[:200]])
            res.count("cores_judged")
            res.case([cfg, [x for x in log if x[0] != "unsat_core"], list(extra_d)], nontrivial=own_unsat)
            if not isinstance(core, (list, tuple)):
                res.violation({"kind": "core", "what": "core-not-a-sequence", "config": cfg, "observed": repr(core)[:200], "history": log})
                return False
            for c in core:
                if not isinstance(c, claripy.ast.Bool):
                    res.violation({"kind": "core", "what": "core-element-not-a-Bool", "config": cfg, "observed": repr(core)[:300], "history": log})
                    return False
            # after simplify() the solver's own constraint store holds rewritten constraints; those count as its
            # tracked constraints too
            snapshot()
            pool = [a for _, a in added] + list(extra) + list(ever_store.values())
            # a top-level conjunction is stored as its conjuncts by the composite solver
            pool += [x for a in list(pool) if isinstance(a, claripy.ast.Base) and a.op == "And" for x in a.args]
            for c in core:
                if not any(c is a or (isinstance(a, claripy.ast.Base) and a.hash() == c.hash()) for a in pool):
                    res.violation({"kind": "core", "what": "core-element-was-never-added", "config": cfg, "observed": repr(c)[:200], "added": [repr(a)[:100] for a in pool], "history": log})
                    return False
                if not any(c is a for a in pool):
                    res.count("core_element_matched_structurally_only")
            if extra:
                res.count("cores_with_extra_constraints")
            if own_unsat and extra:
                res.count("cores_on_unsat_with_extra_not_judged_for_conjunction")
            elif own_unsat:
                res.count("cores_on_unsat")
                for t in path_tags:
                    res.count("path:" + t)
                from vf.mon import sem
                from vf.ref import z3ref

                own_core = [c for c in core if not any(c is e for e in extra)]
                sat_core, _m = z3ref.is_sat([sem.claripy_z3(c) for c in own_core], timeout_ms=5000) if own_core else (True, None)
                if sat_core:
                    res.violation({"kind": "core", "what": "core-is-satisfiable" if core else "empty-core-on-unsatisfiable-constraints", "config": cfg, "core": [repr(c)[:120] for c in core], "constraints": own, "history": log, "paths": sorted(path_tags)})
                    return False
            elif not extra:
                res.count("cores_on_sat")
                if len(core) != 0:
                    res.violation({"kind": "core", "what": "non-empty-core-on-satisfiable-constraints", "config": cfg, "core": [repr(c)[:120] for c in core], "constraints": own, "history": log})
                    return False
            return True

        try:
            n_adds = rng.choice([1, 2, 2, 3, 4, 6, 8])
            style = rng.choice(["pairwise", "z3", "concrete-false", "random", "random", "after-simplify"])
            x = al.v(0)
            k1, k2 = al.k(), al.k()
            if k1[1] == k2[1]:
                k2 = ["bvv", (k2[1] + 1) % 8, 3]
            script = []
            if style == "pairwise":
                script = [[["eq", x, k1]], [["eq", x, k2]]] + [[al.constraint()] for _ in range(n_adds - 2)]
                rng.shuffle(script)
                path_tags.add("pairwise")
            elif style == "z3":
                y = al.v(1 % al.nvars)
                script = [[al.constraint()] for _ in range(5)] + [[["ult", x, y]], [["ult", y, x]]]
                rng.shuffle(script)
                path_tags.add("z3")
            elif style == "concrete-false":
                script = [[al.constraint()] for _ in range(n_adds)] + [[["boolv", False]]]
                rng.shuffle(script)
                path_tags.add("concrete-false")
            else:
                script = [[al.constraint() for _ in range(rng.choice([1, 1, 2]))] for _ in range(n_adds)]
                if style == "after-simplify":
                    path_tags.add("after-simplify")
            for i, ds in enumerate(script):
                add(ds)
                r = rng.random()
                if r < 0.25:
                    if not check_core():
                        break
                elif r < 0.35:
                    try:
                        s.satisfiable()
                        log.append(["satisfiable"])
                    except claripy.errors.ClaripyError:
                        pass
                elif r < 0.42:
                    try:
                        s.eval(B(x), 2)
                        log.append(["eval"])
                    except claripy.errors.ClaripyError:
                        pass
                elif r < 0.50 and style == "after-simplify":
                    s.simplify()
                    snapshot()
                    log.append(["simplify"])
                elif r < 0.58:
                    s = s.branch()
                    log.append(["branch-and-continue-on-branch"])
                    path_tags.add("after-branch")
            else:
                if style == "after-simplify":
                    s.simplify()
                    snapshot()
                    log.append(["simplify"])
                ok = check_core()
                if ok and rng.random() < 0.5:
                    path_tags.add("repeat-call")
                    if rng.random() < 0.6:
                        # another frontend works with the backend in between (with one backend solver per thread it is
                        # the same Z3 solver object that gets reset and refilled)
                        intruder = rng.choice([claripy.Solver, claripy.SolverCacheless])(track=rng.random() < 0.5)
                        intruder.add([B([rng.choice(["ult", "ugt", "ne"]), x, al.k()]), B(al.constraint())])
                        try:
                            intruder.satisfiable()
                            intruder.eval(B(x), 2)
                            if rng.random() < 0.5:
                                intruder.unsat_core() if intruder._track else None
                        except claripy.errors.ClaripyError:
                            pass
                        keep.append(intruder)
                        log.append(["another-solver-used-the-backend"])
                        res.count("intruder_between_core_calls")
                    ok = check_core()
                    if ok and rng.random() < 0.5:
                        ok = check_core()
                if ok and rng.random() < 0.3:
                    check_core(extra_d=[al.constraint()])
                if ok and rng.random() < 0.3:
                    b = s.branch()
                    path_tags.add("after-branch")
                    add_d = [al.constraint()]
                    s = b
                    add(add_d)
                    check_core()
        except claripy.errors.ClaripyError as e:
            if spec["cls"] == "SolverHybrid" and "backend_vsa" in traceback.format_exc():
                res.count("hybrid_vsa_exception:" + type(e).__name__)
                continue
            res.violation({"kind": "core", "what": "history-raised", "config": cfg, "observed": repr(e)[:200], "history": log, "tb": traceback.format_exc()[-1200:]})
        except Exception as e:  # noqa: BLE001
            if spec["cls"] == "SolverHybrid":
                res.count("hybrid_vsa_exception:" + type(e).__name__)
            else:
                res.violation({"kind": "core", "what": "history-raised-non-claripy", "config": cfg, "observed": repr(e)[:200], "history": log, "tb": traceback.format_exc()[-1200:]})


def replay(w, res):
    res.inconc("C16 replay: re-run the shard for the class named in the witness")
