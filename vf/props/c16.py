"""C16 — unsat cores are unsatisfiable subsets of the tracked constraints."""
from __future__ import annotations

import random
import traceback

PID = "C16"
LEVEL = "exploration"
RULE = (
    "a case is one unsat_core() call on a solver created with track=True (Solver, SolverCacheless, SolverComposite, "
    "SolverHybrid) after a random history of adds (1..8 constraints, in orders that reach unsatisfiability through the "
    "pairwise shortcut among the first constraints, through Z3, through a concrete False, and after simplify()), "
    "queries, branches and repeated unsat_core() calls.  Monitor: the returned object must be a flat sequence of Bool "
    "ASTs, each of which is (object identity, else structural hash) one of the constraints handed to add() on that "
    "solver or the solvers it was branched from; when the reference says the solver's own constraints are "
    "unsatisfiable the conjunction of the core must be unsatisfiable too (decided by enumeration over <= 13 variable "
    "bits) - in particular it must not be empty; when they are satisfiable the core must be empty.  Calls that pass "
    "extra constraints are made for coverage but only judged under the same condition on the solver's own "
    "constraints.  Non-trivial: the solver's constraints are unsatisfiable; distinct by (class, add order) hash."
    " Session 4: another solver using the backend between repeated core calls; shards with a conversion cache of six entries. Session 5: 'derived' shard - the parts of split(), merge() either way round, blank_copy() given constraints of its own, combine() and branch() of a solver already found contradictory (pair check, false constant, Z3; core asked before or not) and of a satisfiable one, each judged by its own .constraints."
)
ASSUMPTIONS = ["a core element re-abstracted from Z3 after cache eviction would only match structurally; the LRU cache (10000) is never exceeded here"]

CLASSES = ["Solver", "SolverCacheless", "SolverComposite", "SolverHybrid"]


def floors(tier):
    return {"cores_on_unsat": 200 if tier == "quick" else 3000, "cores_on_sat": 100, "path:pairwise": 20, "path:z3": 50, "path:concrete-false": 20, "path:after-simplify": 15, "path:repeat-call": 30, "path:after-branch": 20, "derived_cores_judged": 500 if tier == "quick" else 5000, "derived_cores_on_sat": 200, "derived_cores_on_unsat": 200}


def plan(tier, seed):
    q = tier == "quick"
    S = [{"kind": "cores", "cls": cls, "stream": i, "n": 120 if q else 1500, "env": {"REUSE_Z3_SOLVER": str(i % 2)}} for cls in CLASSES for i in range(2 if q else 6)]
    # the same with a conversion cache of a few entries (what a solver with more than 10000 constraints meets with the
    # default size): the table that leads from a Z3 term back to the constraint that was added must not depend on it
    S += [{"kind": "cores", "cls": cls, "stream": 10 + i, "n": 80 if q else 800, "small_cache": 6, "env": {"REUSE_Z3_SOLVER": str(i % 2)}} for cls in CLASSES for i in range(1 if q else 2)]
    # solvers derived from a solver whose core is already known (split parts, merge results, blank copies, combinations)
    S += [{"kind": "derived", "cls": cls, "stream": 20 + i, "n": 40 if q else 400, "env": {"REUSE_Z3_SOLVER": str(i % 2)}} for cls in CLASSES for i in range(1 if q else 2)]
    return S


def derived_shard(spec, res, rng, cls, cfg):
    """u is a tracked solver found contradictory in one of the ways claripy finds that out (the pair check at add
    time, a false constant, Z3), optionally already asked for its core; v is a satisfiable one.  Every solver derived
    from them - the parts of split(), merge() either way round, blank_copy() with constraints of its own, combine(),
    branch() - is judged like any tracked solver: by its own constraints (read from .constraints, decided by Z3 on the
    harness's own translation): empty core when satisfiable, else members of its constraints with an unsatisfiable
    conjunction."""
    import claripy

    from vf.mon import sem
    from vf.ref import z3ref

    def judge(label, d, hist):
        own = list(d.constraints)
        try:
            sat, _ = z3ref.is_sat([sem.claripy_z3(c) for c in own], timeout_ms=5000) if own else (True, None)
        except Exception:  # noqa: BLE001
            res.count("derived_not_translatable")
            return True
        try:
            core = d.unsat_core()
        except claripy.errors.ClaripyError as e:
            res.violation({"kind": "core", "what": "unsat_core-raised", "config": cfg, "derived_by": label, "observed": repr(e)[:200], "history": hist, "tb": traceback.format_exc()[-1200:]})
            return False
        res.count("derived_cores_judged")
        res.count("derived:" + label.split("[")[0])
        res.case([cfg, hist, label], nontrivial=True)
        if not isinstance(core, (list, tuple)):
            res.violation({"kind": "core", "what": "core-not-a-sequence", "config": cfg, "derived_by": label, "observed": repr(core)[:200], "history": hist})
            return False
        if sat:
            res.count("derived_cores_on_sat")
            if len(core):
                res.violation({"kind": "core", "what": "non-empty-core-on-satisfiable-constraints", "config": cfg, "derived_by": label, "core": [repr(c)[:120] for c in core], "constraints": [repr(c)[:120] for c in own], "history": hist})
                return False
            return True
        res.count("derived_cores_on_unsat")
        pool = list(own) + [x for a in own if a.op == "And" for x in a.args]
        for c in core:
            if not any(c is a or a.hash() == c.hash() for a in pool):
                res.violation({"kind": "core", "what": "core-element-was-never-added", "config": cfg, "derived_by": label, "observed": repr(c)[:200], "constraints": [repr(a)[:120] for a in own], "history": hist})
                return False
        sat_core, _ = z3ref.is_sat([sem.claripy_z3(c) for c in core], timeout_ms=5000) if len(core) else (True, None)
        if sat_core:
            res.violation({"kind": "core", "what": "core-is-satisfiable" if len(core) else "empty-core-on-unsatisfiable-constraints", "config": cfg, "derived_by": label, "core": [repr(c)[:120] for c in core], "constraints": [repr(c)[:120] for c in own], "history": hist})
            return False
        return True

    for it in range(spec["n"]):
        w = rng.choice([3, 8, 32])
        x, y, z = (claripy.BVS(n_, w, explicit_name=True) for n_ in ("dx", "dy", "dz"))
        b = claripy.BoolS("db", explicit_name=True)
        k1 = rng.randrange(0, 7)
        k2 = (k1 + 1 + rng.randrange(0, 5)) % 8
        how = rng.choice(["pair", "pair", "false", "z3", "sat"])
        u = cls(track=True)
        hist = [how]
        side = [claripy.ULT(y, rng.randrange(1, 7)), y != rng.randrange(0, 7), claripy.UGT(z, rng.randrange(0, 6))]
        rng.shuffle(side)
        pre = side[: rng.randrange(0, 3)]
        post = side[len(pre) : len(pre) + rng.randrange(0, 2)]
        try:
            for c in pre:
                u.add(c)
            if how == "pair":
                u.add(x == k1)
                u.add(x == k2)
            elif how == "false":
                u.add(x == k1)
                u.add(claripy.false())
            elif how == "z3":
                u.add(claripy.ULT(x, y))
                u.add(claripy.ULT(y, x))
            else:
                u.add(x == k1)
            for c in post:
                u.add(c)
            asked = rng.random() < 0.6
            if asked:
                hist.append("core-asked-first")
                if not judge("u", u, hist):
                    continue
            elif rng.random() < 0.5:
                hist.append("satisfiable-asked-first")
                u.satisfiable()
            v = cls(track=True)
            v.add(x == rng.randrange(0, 7))
            v.add(y == rng.randrange(0, 7))
            if rng.random() < 0.5:
                v.satisfiable()
            derived = []
            for i, part in enumerate(u.split()):
                derived.append((f"split[{i}]", part))
            derived.append(("merge-u-first", u.merge([v], [b, claripy.Not(b)])[1]))
            derived.append(("merge-v-first", v.merge([u], [b, claripy.Not(b)])[1]))
            bc = u.blank_copy()
            bc.add(y == 1)
            derived.append(("blank_copy-sat", bc))
            bc2 = u.blank_copy()
            bc2.add(claripy.ULT(z, 2))
            bc2.add(claripy.UGT(z, 4))
            derived.append(("blank_copy-unsat", bc2))
            derived.append(("combine", u.combine([v])))
            derived.append(("combine-v-first", v.combine([u])))
            br = u.branch()
            derived.append(("branch", br))
            br2 = v.branch()
            br2.add(x == 7)
            br2.add(claripy.ULT(x, 3))
            derived.append(("branch-of-sat-made-unsat", br2))
            rng.shuffle(derived)
            for label, d in derived:
                if not judge(label, d, hist):
                    break
            # and the two they were derived from, afterwards
            judge("u-afterwards", u, hist)
            judge("v-afterwards", v, hist)
        except claripy.errors.ClaripyError as e:
            res.violation({"kind": "core", "what": "derived-scenario-raised", "config": cfg, "observed": repr(e)[:200], "history": hist, "tb": traceback.format_exc()[-1200:]})


def run_shard(spec, res):
    import claripy

    from vf.gen import histories as H
    from vf.mon import api
    from vf.ref import refsolver

    rng = random.Random(f"{spec['seed']}:{PID}:{spec['cls']}:{spec.get('stream')}")
    cls = getattr(claripy, spec["cls"])
    cfg = {"cls": spec["cls"], "reuse": int(spec["env"]["REUSE_Z3_SOLVER"]), "track": True}
    if spec.get("small_cache"):
        cfg["ast_cache_size"] = spec["small_cache"]
        claripy.backends.z3._ast_cache_size = spec["small_cache"]
        claripy.backends.z3._tls.__dict__.pop("ast_cache", None)
        res.count("small_cache_shards")
    if spec["kind"] == "derived":
        derived_shard(spec, res, rng, cls, cfg)
        return

    for it in range(spec["n"]):
        al = H.Alphabet(rng, w=3, nvars=rng.choice([2, 3, 4]), nbools=0)
        uni = refsolver.Universe(al.vars)
        s = cls(track=True)
        added = []  # (descriptor, ast)
        log = []
        keep = []
        path_tags = set()

        def B(d):
            from vf.gen.build import build

            a = build(d)
            keep.append(a)
            return a

        ever_store = {}

        def snapshot():
            for c_ in s.constraints:
                ever_store[c_.hash()] = c_

        def add(ds):
            asts = []
            for d in ds:
                try:
                    a = B(d)
                except claripy.errors.ClaripyZeroDivisionError:
                    continue
                asts.append(a)
                added.append((d, a))
            s.add(asts)
            snapshot()
            log.append(["add", ds])

        def check_core(extra_d=()):
            nonlocal s
            extra = tuple(B(d) for d in extra_d)
            own = [d for d, _ in added]
            ans = refsolver.Answer(uni, own)
            own_unsat = not ans.sat()
            try:
                core = s.unsat_core(extra_constraints=extra) if extra else s.unsat_core()
            except claripy.errors.ClaripyError as e:
                res.violation({"kind": "core", "what": "unsat_core-raised", "config": cfg, "observed": repr(e)[:200], "history": log, "tb": traceback.format_exc()[-1200:]})
                return False
            log.append(["unsat_core", list(extra_d), [repr(c)[:80] for c in core] if isinstance(core, (list, tuple)) else repr(core)[:200]])
            res.count("cores_judged")
            res.case([cfg, [x for x in log if x[0] != "unsat_core"], list(extra_d)], nontrivial=own_unsat)
            if not isinstance(core, (list, tuple)):
                res.violation({"kind": "core", "what": "core-not-a-sequence", "config": cfg, "observed": repr(core)[:200], "history": log})
                return False
            for c in core:
                if not isinstance(c, claripy.ast.Bool):
                    res.violation({"kind": "core", "what": "core-element-not-a-Bool", "config": cfg, "observed": repr(core)[:300], "history": log})
                    return False
            # after simplify() the solver's own constraint store holds rewritten constraints; those count as its
            # tracked constraints too
            snapshot()
            pool = [a for _, a in added] + list(extra) + list(ever_store.values())
            # a top-level conjunction is stored as its conjuncts by the composite solver
            pool += [x for a in list(pool) if isinstance(a, claripy.ast.Base) and a.op == "And" for x in a.args]
            for c in core:
                if not any(c is a or (isinstance(a, claripy.ast.Base) and a.hash() == c.hash()) for a in pool):
                    res.violation({"kind": "core", "what": "core-element-was-never-added", "config": cfg, "observed": repr(c)[:200], "added": [repr(a)[:100] for a in pool], "history": log})
                    return False
                if not any(c is a for a in pool):
                    res.count("core_element_matched_structurally_only")
            if extra:
                res.count("cores_with_extra_constraints")
            if own_unsat and extra:
                res.count("cores_on_unsat_with_extra_not_judged_for_conjunction")
            elif own_unsat:
                res.count("cores_on_unsat")
                for t in path_tags:
                    res.count("path:" + t)
                from vf.mon import sem
                from vf.ref import z3ref

                own_core = [c for c in core if not any(c is e for e in extra)]
                sat_core, _m = z3ref.is_sat([sem.claripy_z3(c) for c in own_core], timeout_ms=5000) if own_core else (True, None)
                if sat_core:
                    res.violation({"kind": "core", "what": "core-is-satisfiable" if core else "empty-core-on-unsatisfiable-constraints", "config": cfg, "core": [repr(c)[:120] for c in core], "constraints": own, "history": log, "paths": sorted(path_tags)})
                    return False
            elif not extra:
                res.count("cores_on_sat")
                if len(core) != 0:
                    res.violation({"kind": "core", "what": "non-empty-core-on-satisfiable-constraints", "config": cfg, "core": [repr(c)[:120] for c in core], "constraints": own, "history": log})
                    return False
            return True

        try:
            n_adds = rng.choice([1, 2, 2, 3, 4, 6, 8])
            style = rng.choice(["pairwise", "z3", "concrete-false", "random", "random", "after-simplify"])
            x = al.v(0)
            k1, k2 = al.k(), al.k()
            if k1[1] == k2[1]:
                k2 = ["bvv", (k2[1] + 1) % 8, 3]
            script = []
            if style == "pairwise":
                script = [[["eq", x, k1]], [["eq", x, k2]]] + [[al.constraint()] for _ in range(n_adds - 2)]
                rng.shuffle(script)
                path_tags.add("pairwise")
            elif style == "z3":
                y = al.v(1 % al.nvars)
                script = [[al.constraint()] for _ in range(5)] + [[["ult", x, y]], [["ult", y, x]]]
                rng.shuffle(script)
                path_tags.add("z3")
            elif style == "concrete-false":
                script = [[al.constraint()] for _ in range(n_adds)] + [[["boolv", False]]]
                rng.shuffle(script)
                path_tags.add("concrete-false")
            else:
                script = [[al.constraint() for _ in range(rng.choice([1, 1, 2]))] for _ in range(n_adds)]
                if style == "after-simplify":
                    path_tags.add("after-simplify")
            for i, ds in enumerate(script):
                add(ds)
                r = rng.random()
                if r < 0.25:
                    if not check_core():
                        break
                elif r < 0.35:
                    try:
                        s.satisfiable()
                        log.append(["satisfiable"])
                    except claripy.errors.ClaripyError:
                        pass
                elif r < 0.42:
                    try:
                        s.eval(B(x), 2)
                        log.append(["eval"])
                    except claripy.errors.ClaripyError:
                        pass
                elif r < 0.50 and style == "after-simplify":
                    s.simplify()
                    snapshot()
                    log.append(["simplify"])
                elif r < 0.58:
                    s = s.branch()
                    log.append(["branch-and-continue-on-branch"])
                    path_tags.add("after-branch")
            else:
                if style == "after-simplify":
                    s.simplify()
                    snapshot()
                    log.append(["simplify"])
                ok = check_core()
                if ok and rng.random() < 0.5:
                    path_tags.add("repeat-call")
                    if rng.random() < 0.6:
                        # another frontend works with the backend in between (with one backend solver per thread it is
                        # the same Z3 solver object that gets reset and refilled)
                        intruder = rng.choice([claripy.Solver, claripy.SolverCacheless])(track=rng.random() < 0.5)
                        intruder.add([B([rng.choice(["ult", "ugt", "ne"]), x, al.k()]), B(al.constraint())])
                        try:
                            intruder.satisfiable()
                            intruder.eval(B(x), 2)
                            if rng.random() < 0.5:
                                intruder.unsat_core() if intruder._track else None
                        except claripy.errors.ClaripyError:
                            pass
                        keep.append(intruder)
                        log.append(["another-solver-used-the-backend"])
                        res.count("intruder_between_core_calls")
                    ok = check_core()
                    if ok and rng.random() < 0.5:
                        ok = check_core()
                if ok and rng.random() < 0.3:
                    check_core(extra_d=[al.constraint()])
                if ok and rng.random() < 0.3:
                    b = s.branch()
                    path_tags.add("after-branch")
                    add_d = [al.constraint()]
                    s = b
                    add(add_d)
                    check_core()
        except claripy.errors.ClaripyError as e:
            if spec["cls"] == "SolverHybrid" and "backend_vsa" in traceback.format_exc():
                res.count("hybrid_vsa_exception:" + type(e).__name__)
                continue
            res.violation({"kind": "core", "what": "history-raised", "config": cfg, "observed": repr(e)[:200], "history": log, "tb": traceback.format_exc()[-1200:]})
        except Exception as e:  # noqa: BLE001
            if spec["cls"] == "SolverHybrid":
                res.count("hybrid_vsa_exception:" + type(e).__name__)
            else:
                res.violation({"kind": "core", "what": "history-raised-non-claripy", "config": cfg, "observed": repr(e)[:200], "history": log, "tb": traceback.format_exc()[-1200:]})


def replay(w, res):
    res.inconc("C16 replay: re-run the shard for the class named in the witness")
