"""C04 — building and folding well-typed expressions never crashes."""
from __future__ import annotations

import random
import signal
import time
import traceback

PID = "C04"
LEVEL = "exploration"
STRICT_WORKER_DEATH = True  # a crash of the worker is an observation about this property
RULE = (
    "every construction of the C01/C02/C03 workloads (BV/Bool rule templates and random trees, FP pool products, "
    "string pool products) plus a hostile family (shift/rotate amounts 2^62..2^64 and >= width at widths up to 256, "
    "constants 0/1/2^k/all-ones, NaN/inf/overflowing Python floats, float->int of NaN/inf/out-of-range, regex "
    "metacharacter strings, non-byte Reverse, unsupported float sizes), each built with claripy debug checks on and "
    "off, in a child process with an address-space cap and a per-construction alarm.  Monitor: the exception type "
    "of every public constructor call.  Allowed: an AST result, ClaripyZeroDivisionError when a divisor can be "
    "concrete zero, ClaripyOperationError for byte-reversal of a non-byte width or an unsupported float sort.  "
    "Anything else (MemoryError, re.error, AssertionError, OverflowError, TypeError, truthiness errors from inside "
    "a rewrite, signals) is a violation.  Non-trivial: has an operator node; distinct by descriptor hash + debug flag."
    " Session 4: the same constructions in threads that did not import claripy; wide IntToStr; integers as float constants."
)
ASSUMPTIONS = [
    "a per-construction alarm expiry (20 s) is reported as inconclusive (suspected hang), never as a violation",
    "address-space cap 6 GiB: a MemoryError under the cap counts as memory exhaustion",
]

AS_CAP = 6 << 30


def floors(tier):
    return {"built": 5000, "built_debug_off": 1000, "raised_allowed": 20}


def plan(tier, seed):
    S = []
    q = tier == "quick"
    S += [{"kind": "hostile_bv", "stream": i, "n": 300 if q else 3000, "rlimit_as": AS_CAP} for i in range(4 if q else 8)]
    S += [{"kind": "bv_tmpl", "stream": i, "n": 6 if q else 60, "rlimit_as": AS_CAP} for i in range(4 if q else 8)]
    S += [{"kind": "bv_rand", "stream": i, "n": 600 if q else 6000, "rlimit_as": AS_CAP} for i in range(4 if q else 8)]
    for srt in "FD":
        S.append({"kind": "fp", "sub": "conv", "S": srt, "pool": "small" if q else "full", "rlimit_as": AS_CAP})
        S.append({"kind": "fp", "sub": "unary_cmp", "S": srt, "pool": "small" if q else "full", "rlimit_as": AS_CAP})
        for op in ("fpadd", "fpdiv") if q else ("fpadd", "fpsub", "fpmul", "fpdiv"):
            S.append({"kind": "fp", "sub": "arith", "S": srt, "op": op, "pool": "small" if q else "full", "rlimit_as": AS_CAP})
    S += [{"kind": "fp_tree", "stream": i, "n": 400 if q else 4000, "rlimit_as": AS_CAP} for i in range(2 if q else 8)]
    S += [{"kind": "hostile_fp", "rlimit_as": AS_CAP}]
    S += [{"kind": "str", "sub": "pairs", "part": i, "parts": 4 if q else 8, "rlimit_as": AS_CAP} for i in range(4 if q else 8)]
    S += [{"kind": "str", "sub": "literals", "rlimit_as": AS_CAP}, {"kind": "str", "sub": "rand", "stream": 0, "n": 500 if q else 5000, "rlimit_as": AS_CAP}]
    # the same constructions in threads that did not import claripy (per-thread state of the backends is created lazily)
    S += [{"kind": "thread", "of": of, "stream": i, "n": 250 if q else 2500, "rlimit_as": AS_CAP} for i, of in enumerate(["hostile_bv", "bv_rand", "fp_tree", "bv_tmpl"])]
    return S


class CaseTimeout(Exception):
    pass


def _alarm(signum, frame):
    raise CaseTimeout()


def hostile_bv(rng, n):
    from vf.gen import exprgen as G

    for _ in range(n):
        w = rng.choice([1, 8, 32, 63, 64, 64, 65, 128, 256])
        m = (1 << w) - 1
        amt = rng.choice([w - 1, w, w + 1, 2 * w, 1 << 62, (1 << 62) + 1, 1 << 63, (1 << 64) - 1, m, m - 1, m >> 1, 255]) & m
        val = rng.choice([0, 1, m, 1 << (w - 1), rng.getrandbits(w)])
        x = G.bvs("a", w)
        A = rng.choice([["bvv", val, w], x, ["add", x, ["bvv", val, w]]])
        B = rng.choice([["bvv", amt, w], ["bvv", amt, w], ["int", rng.choice([amt, -1, 1 << 64, (1 << 64) - 1, 1 << 62])]])
        o = rng.choice(["shl", "lshr", "ashr", "rol", "ror", "shl", "mul", "udiv", "urem", "sdiv", "srem", "sub", "add"])
        k = rng.random()
        if k < 0.12:
            # two shifts of one operand combined and masked (rotate idioms, mask-of-shift rewrites) with hostile amounts
            amt2 = rng.choice([w - 1, w, 1, (1 << 62) - 1, 1 << 62, (1 << 63) - 1, (1 << 64) - 1, m, m - amt & m, (w - amt) & m]) & m
            inner = [rng.choice(["or", "or", "xor", "add", "and"]), [rng.choice(["shl", "shl", "lshr"]), A, B], [rng.choice(["lshr", "lshr", "shl", "ashr"]), A, ["bvv", amt2, w]]]
            mask = ["bvv", rng.choice([m, 1, 0xFF & m, m >> 1, (1 << (w // 2)) - 1 if w > 1 else 1, rng.getrandbits(w)]), w]
            hi = rng.randrange(0, w)
            yield rng.choice([inner, ["and", inner, mask], ["and", mask, inner], ["extract", hi, rng.randrange(0, hi + 1), inner], [rng.choice(G.CMP_ALL), ["and", inner, mask], ["bvv", val, w]]])
        elif k < 0.5:
            yield [o, A, B]
        elif k < 0.65:
            yield [o, [rng.choice(["shl", "lshr", "ashr", "rol"]), A, B], ["bvv", amt, w]]
        elif k < 0.75:
            yield [rng.choice(G.CMP_ALL), [o, A, B], ["bvv", val, w]]
        elif k < 0.8 and w >= 2:
            yield ["reverse", A]  # non-byte widths raise a documented error when folded
        elif k < 0.88:
            hi = rng.randrange(0, w)
            yield ["extract", hi, rng.randrange(0, hi + 1), [o, A, B]]
        elif k < 0.94:
            yield ["inv", ["ite", ["bools", "p"], ["bvv", 1 & m, w], rng.choice([["bvv", 0, w], x, ["add", x, G.bvs("b", w)]])]]
        else:
            yield ["concat", *[rng.choice([A, ["bvv", amt, w], x]) for _ in range(rng.choice([2, 3, 8, 40]))]]


def hostile_fp():
    from vf.gen import fpbuild

    RMS = ["RNE", "RNA", "RTZ", "RTP", "RTN"]
    for srt in "FD":
        for x in fpbuild.hostile_pyfloats():
            A = ["fpv_py", float(x).hex(), srt]
            yield A
            for rm in RMS:
                for n in (1, 8, 31, 32, 64, 65, 128):
                    yield ["fp2sbv", rm, A, n]
                    yield ["fp2ubv", rm, A, n]
                yield ["fpsqrt", rm, A]
                yield ["fpdiv", rm, A, ["fpv_py", (0.0).hex(), srt]]
                yield ["fpdiv", rm, ["fpv_py", (-0.0).hex(), srt], A]
            yield ["fp2ieee", A]
            yield ["fpisnan", A]
            yield ["ite", ["fpisnan", A], A, ["fpneg", A]]
    # integers as float constants, beyond every float's range too
    for srt in "FD":
        for n_ in (0, 1, -1, 2**24 + 1, 2**53 + 1, 2**128, -(2**128), 2**1024 - 1, 2**1024, 10**400, -(10**400), 10**5000):
            yield ["fpv_int", n_, srt]
            yield ["fpv_int@op", n_, srt]
    # unsupported float sizes: documented ClaripyOperationError
    for w in (8, 16, 31, 33, 128):
        yield ["raw2fp@meth", ["bvv", 1, w], "F"]
        yield ["raw2fp@meth", ["bvs", f"r{w}", w], "F"]
    yield ["fpfp", ["bvv", 0, 1], ["bvv", 3, 5], ["bvv", 1, 10]]
    yield ["fpfp", ["bvv", 0, 1], ["bvv", 127, 8], ["bvv", 1, 23]]
    yield ["fpfp", ["bvs", "s1", 1], ["bvs", "e11", 11], ["bvs", "m52", 52]]


def _cases(spec, rng):
    k = spec["kind"]
    if k == "hostile_bv":
        yield from (("bv", d) for d in hostile_bv(rng, spec["n"]))
    elif k == "bv_tmpl":
        from vf.gen import exprgen as G

        for _ in range(spec["n"]):
            yield from (("bv", d) for d in G.templates(rng))
    elif k == "bv_rand":
        from vf.gen import exprgen as G

        for _ in range(spec["n"]):
            g = G.Gen(rng, nvars=rng.choice([1, 2, 3]), widths=rng.choice([[1, 2, 3, 4, 8], [16, 32, 64], [7, 13, 65, 128, 256]]))
            yield ("bv", g.any(rng.choice([1, 2, 3, 4])))
    elif k == "fp":
        from vf.props import c02

        sub = dict(spec, kind=spec["sub"])
        yield from (("fp", d) for d in c02._cases(sub, rng))
    elif k == "fp_tree":
        from vf.props import c02

        for _ in range(spec["n"]):
            yield ("fp", c02.tree_case(rng, rng.choice("FD"), rng.choice([1, 2, 3]), concrete=rng.random() < 0.6))
    elif k == "hostile_fp":
        yield from (("fp", d) for d in hostile_fp())
    elif k == "str":
        from vf.props import c03

        sub = dict(spec, kind=spec["sub"])
        yield from (("str", d) for d in c03._cases(sub, rng))
        if spec["sub"] == "literals":
            # integers wider than 64 bits rendered as strings (thousands of digits)
            for n_, w_ in ((10**5000, 20000), (2**20000 - 1, 20000), (10**4300, 16384), (10**4299, 16384), (2**128 - 1, 128)):
                yield ("str", ["inttostr", ["bvv", n_, w_]])
                yield ("str", ["slen", ["inttostr", ["bvv", n_, w_]]])


def allowed(e, fam, d, rng):
    """Is this exception one of the documented conditions for this descriptor?"""
    import claripy

    from vf.mon import sem
    from vf.ref import bvsem

    if isinstance(e, claripy.errors.ClaripyZeroDivisionError):
        return fam == "bv" and sem.div0_possible(d, rng, tries=12), "div0"
    if isinstance(e, claripy.errors.ClaripyOperationError):
        msg = str(e)
        if "reverse non-byte" in msg:
            return fam == "bv" and _has_nonbyte_reverse(d), "reverse-nonbyte"
        if "FSort" in msg or "float sort" in msg:
            return fam == "fp" and _has_bad_fsize(d), "unsupported-float-sort"
    return False, None


def _has_nonbyte_reverse(d):
    from vf.ref import bvsem

    if not isinstance(d, list):
        return False
    if bvsem.base(d[0]) == "reverse" and bvsem.width(d[1]) % 8 != 0:
        return True
    return any(_has_nonbyte_reverse(a) for a in d[1:])


def _has_bad_fsize(d):
    from vf.ref import bvsem, fpref

    if not isinstance(d, list):
        return False
    o = bvsem.base(d[0])
    if o == "raw2fp" and fpref.sort_of(d[1])[1] not in (32, 64):
        return True
    if o == "fpfp" and sum(fpref.sort_of(x)[1] for x in d[1:4]) not in (32, 64):
        return True
    return any(_has_bad_fsize(a) for a in d[1:])


def run_shard(spec, res):
    import claripy

    from vf.gen import build as bvb
    from vf.gen import fpbuild, strbuild

    rng = random.Random(f"{spec['seed']}:{PID}:{spec['kind']}:{spec.get('stream')}:{spec.get('sub')}:{spec.get('S')}:{spec.get('op')}:{spec.get('part')}")
    builders = {"bv": bvb.build, "fp": fpbuild.build, "str": strbuild.build}
    if spec["kind"] == "thread":
        return thread_shard(spec, res, rng, builders)
    signal.signal(signal.SIGALRM, _alarm)
    keep = []
    n = 0
    for fam, d in _cases(spec, rng):
        if fam == "bv" and not bvb.well_formed(d):
            continue
        n += 1
        for dbg in (True, False) if n % 3 == 0 else (True,):
            judge(fam, d, dbg, builders[fam], res, rng, keep)
    claripy.set_debug(True)


def thread_shard(spec, res, rng, builders):
    """a sample of another shard's constructions, each batch built in a fresh thread"""
    import itertools
    import threading

    import claripy

    from vf.gen import build as bvb

    src = dict(spec, kind=spec["of"], n=spec["n"] if spec["of"] != "bv_tmpl" else 2)
    cases = [(fam, d) for fam, d in itertools.islice(_cases(src, rng), spec["n"] * 4) if fam != "bv" or bvb.well_formed(d)]
    rng.shuffle(cases)
    cases = cases[: spec["n"]]
    batch = 25
    for i in range(0, len(cases), batch):
        out = []

        def work(chunk=cases[i : i + batch], out=out):
            for fam, d in chunk:
                try:
                    ast = builders[fam](d)
                    out.append((fam, d, None, isinstance(ast, claripy.ast.Base), None))
                except BaseException as e:  # noqa: BLE001
                    out.append((fam, d, e, False, traceback.format_exc()))

        t = threading.Thread(target=work)
        t.start()
        t.join(timeout=300)
        res.count("threads_used")
        if t.is_alive():
            res.inconc("SUSPECTED-HANG: a batch built in a thread did not finish within 300 s")
            return
        for fam, d, e, is_ast, tb in out:
            res.case(["thread", fam, d], True)
            res.count("built_in_thread")
            if e is None:
                if not is_ast:
                    res.violation({"kind": "crash", "what": "not-an-AST", "family": fam, "case": d, "where": "non-main thread"})
                continue
            ok, why = allowed(e, fam, d, rng)
            if ok:
                res.count("raised_allowed")
                res.count("allowed:" + why)
            else:
                res.violation({"kind": "crash", "what": type(e).__name__, "family": fam, "case": d, "observed": repr(e)[:300], "where": "non-main thread", "tb": (tb or "")[-1800:]})


def judge(fam, d, dbg, builder, res, rng, keep):
    import claripy

    claripy.set_debug(dbg)
    t0 = time.perf_counter()
    signal.alarm(20)
    try:
        try:
            ast = builder(d)
        finally:
            signal.alarm(0)
    except CaseTimeout:
        res.case([fam, dbg, d], True)
        res.count("alarm_expired")
        res.inconc(f"SUSPECTED-HANG: construction did not finish within 20 s: {str(d)[:200]}")
        return
    except MemoryError:
        res.case([fam, dbg, d], True)
        res.violation({"kind": "crash", "what": "MemoryError", "family": fam, "debug": dbg, "case": d})
        return
    except Exception as e:  # noqa: BLE001
        res.case([fam, dbg, d], True)
        ok, why = allowed(e, fam, d, rng)
        if ok:
            res.count("raised_allowed")
            res.count("allowed:" + why)
        else:
            tb = traceback.format_exc()
            res.violation({"kind": "crash", "what": type(e).__name__, "family": fam, "debug": dbg, "case": d, "observed": repr(e)[:300], "in_rewrite": "simplifications.py" in tb, "tb": tb[-1800:]})
        return
    finally:
        claripy.set_debug(True)
    dt = time.perf_counter() - t0
    res.case([fam, dbg, d], True)
    res.count("built")
    if not dbg:
        res.count("built_debug_off")
    res.count("family:" + fam)
    if dt > 2.0:
        res.count("slow_over_2s")
        res.setadd("slow_cases", str(d)[:150])
    if not isinstance(ast, claripy.ast.Base):
        res.violation({"kind": "crash", "what": "not-an-AST", "family": fam, "debug": dbg, "case": d, "observed": repr(ast)[:200]})
        return
    keep.append(ast)
    if len(keep) > 5000:
        del keep[:2500]


def replay(w, res):
    from vf.gen import build as bvb
    from vf.gen import fpbuild, strbuild

    signal.signal(signal.SIGALRM, _alarm)
    builders = {"bv": bvb.build, "fp": fpbuild.build, "str": strbuild.build}
    judge(w["family"], w["case"], w.get("debug", True), builders[w["family"]], res, random.Random(0), [])
