"""C07 — annotations survive rewriting as the annotation contract promises."""
from __future__ import annotations

import random
import traceback

PID = "C07"
LEVEL = "exploration"
RULE = (
    "every operator application made while building annotated operation trees is one case: the arguments carry "
    "eliminatable, non-eliminatable (NE) and relocatable (REL, and RELTAG whose relocate() returns a tagged copy) "
    "annotations on random leaves and inner nodes, on each rewrite-rule template, on random typed trees and on If "
    "shortcuts / eager folding.  Monitor per application r = op(args): UA(args) - the NE annotations found by an "
    "independent traversal of the arguments - must all still be reachable in r (the rewrite is skipped instead); "
    "every relocatable annotation in an argument's own annotation tuple must be on r (RELTAG: same tag, possibly "
    "relocated).  claripy.simplify(e): e.annotations and the relocatable annotations of e's direct arguments are "
    "on the result.  Solvers: a constraint carrying a SimplificationAvoidanceAnnotation is the same object in "
    "s.constraints after simplify().  Non-trivial: at least one argument subtree carries a NE or relocatable "
    "annotation; distinct by (descriptor, annotation placement) hash."
    " Session 5 (simplify shard): the top node's annotations edited after construction (replaced, one removed, cleared, cleared and re-annotated), so that it no longer carries a copy of its arguments' relocatable annotations. Session 4 (solver shard): annotated conjunctions, implicit simplification by queries, branches, second add+simplify; the annotated object itself must still be among the constraints."
)
ASSUMPTIONS = ["annotation identity is the annotation object's own ==/hash (test annotations compare by tag)"]


def floors(tier):
    return {"applications_judged": 5000, "applications_with_ne_or_rel": 1500, "simplify_judged": 100, "solver_simplify_judged": 20, "substitutions_folded_to_a_constant": 50, "result_differs_from_plain_node": 300}


def plan(tier, seed):
    q = tier == "quick"
    S = [{"kind": "tmpl", "stream": i, "n": 5 if q else 50} for i in range(6 if q else 16)]
    S += [{"kind": "rand", "stream": i, "n": 800 if q else 8000} for i in range(6 if q else 16)]
    S += [{"kind": "ifs", "stream": i, "n": 300 if q else 3000} for i in range(2 if q else 4)]
    S += [{"kind": "simplify", "stream": i, "n": 250 if q else 2500} for i in range(2 if q else 4)]
    S += [{"kind": "solver", "stream": i, "n": 60 if q else 600} for i in range(2 if q else 4)]
    S += [{"kind": "substitute", "stream": i, "n": 400 if q else 4000} for i in range(2 if q else 4)]
    return S


def own_ne(ast, acc=None):
    """non-eliminatable, non-relocatable annotations anywhere below ast (own traversal)"""
    import claripy

    acc = [] if acc is None else acc
    stack = [ast]
    seen = set()
    while stack:
        x = stack.pop()
        if not isinstance(x, claripy.ast.Base) or id(x) in seen:
            continue
        seen.add(id(x))
        for a in x.annotations:
            if not a.eliminatable and not a.relocatable:
                acc.append(a)
        stack.extend(x.args)
    return acc


def top_rel(ast):
    return [a for a in ast.annotations if not a.eliminatable and a.relocatable]


def has(annos, a):
    from vf.gen.astwork import RELTAG

    for b in annos:
        if b is a or b == a:
            return True
        # RegionAnnotation hashes by its fields but inherits identity equality; the hash-cons table keys an AST by the
        # annotations' hashes, so rebuilding an annotated AST returns the cached object, which carries an earlier,
        # field-for-field equal annotation object.  Same class and same fields is the same annotation.
        if type(b) is type(a) and type(a).__eq__ is object.__eq__ and getattr(a, "__dict__", None) and vars(a) == vars(b):
            return True
        if isinstance(a, RELTAG) and isinstance(b, RELTAG) and a.tag == b.tag and b.moved >= a.moved:
            return True
    return False


def judge_application(d, kids, r, res, where):
    import claripy

    asts = [k for k in kids if isinstance(k, claripy.ast.Base)]
    ne_in = []
    for k in asts:
        own_ne(k, ne_in)
    rel_in = [(k, a) for k in asts for a in top_rel(k)]
    res.count("applications_judged")
    nontriv = bool(ne_in or rel_in)
    if nontriv:
        res.count("applications_with_ne_or_rel")
    if not isinstance(r, claripy.ast.Base):
        return
    if r.op != d[0].split("@")[0] and nontriv:
        res.count("result_differs_from_plain_node")
    ne_out = own_ne(r)
    for a in ne_in:
        if not has(ne_out, a):
            res.violation({"kind": "annotation", "what": "non-eliminatable-annotation-lost", "where": where, "case": d, "args": [repr(k)[:120] for k in kids], "result": repr(r)[:200], "observed": repr(a), "arg_annotations": [repr(getattr(k, "annotations", None)) for k in kids]})
            break
    for k, a in rel_in:
        if not has(r.annotations, a):
            res.violation({"kind": "annotation", "what": "relocatable-annotation-not-on-result", "where": where, "case": d, "args": [repr(k)[:120] for k in kids], "result": repr(r)[:200], "result_annotations": repr(r.annotations), "observed": repr(a)})
            break


def build_monitored(d, rng, res, p, where):
    """build_annotated with the C07 monitor at every operator application"""
    import claripy

    from vf.gen import astwork
    from vf.gen import build as bvb
    from vf.ref import bvsem

    o = bvsem.base(d[0])
    if o in ("int", "pybool"):
        return bvb.build(d)
    if o in ("bvs", "bvv", "bools", "boolv"):
        a = bvb.build(d)
    else:
        kids = [build_monitored(x, rng, res, p, where) if isinstance(x, list) else x for x in d[1:]]
        a = astwork._apply(d, kids)
        res.case([where, d, [repr(getattr(k, "annotations", ())) for k in kids]], nontrivial=any(isinstance(k, claripy.ast.Base) and (own_ne(k) or top_rel(k)) for k in kids))
        judge_application(d, [k for k in kids if isinstance(k, claripy.ast.Base)], a, res, where)
    if isinstance(a, claripy.ast.Base) and rng.random() < p:
        an = astwork.rand_annotation(rng)
        if rng.random() < 0.25:
            an = astwork.RELTAG(rng.choice(["r0", "r1"]))
        a = a.annotate(an)
    return a


def run_shard(spec, res):
    import claripy

    from vf.gen import astwork
    from vf.gen import build as bvb
    from vf.gen import exprgen as G

    rng = random.Random(f"{spec['seed']}:{PID}:{spec['kind']}:{spec.get('stream')}")
    k = spec["kind"]
    keep = []

    def guarded(d, where, p):
        try:
            keep.append(build_monitored(d, rng, res, p, where))
        except claripy.errors.ClaripyZeroDivisionError:
            res.count("div0")
        except claripy.errors.ClaripyError as e:
            res.count("build_raised:" + type(e).__name__)
        except Exception as e:  # noqa: BLE001
            res.violation({"kind": "annotation", "what": "exception-while-building-annotated", "case": d, "observed": repr(e), "tb": traceback.format_exc()[-1500:]})
        if len(keep) > 4000:
            del keep[:2000]

    if k == "tmpl":
        for _ in range(spec["n"]):
            for d in G.templates(rng):
                if bvb.well_formed(d):
                    guarded(d, "template", rng.choice([0.15, 0.35, 0.6]))
    elif k == "rand":
        for _ in range(spec["n"]):
            g = G.Gen(rng, nvars=rng.choice([1, 2, 3]), widths=[1, 2, 4, 8, 16, 32], surface=False)
            guarded(g.any(rng.choice([1, 2, 3])), "random", rng.choice([0.15, 0.35, 0.6]))
    elif k == "ifs":
        for _ in range(spec["n"]):
            w = rng.choice([1, 8, 32])
            g = G.Gen(rng, nvars=2, widths=[w], surface=False)
            x, y, c = g.bv(w, 1), g.bv(w, 1), g.boolx(1)
            kconst = ["bvv", rng.getrandbits(w), w]
            shapes = [
                ["ite", ["boolv", True], x, y], ["ite", ["boolv", False], x, y], ["ite", ["boolv", True], x, kconst], ["ite", ["boolv", False], kconst, y],
                ["ite", c, x, x], ["ite", c, ["ite", c, x, y], kconst], ["ite", c, kconst, ["ite", c, x, y]], ["ite", c, ["ite", ["bnot", c], x, y], kconst],
                ["ite", c, ["boolv", True], ["boolv", False]], ["ite", c, ["boolv", False], ["boolv", True]], ["ite", ["eq", kconst, kconst], x, y],
                ["ite", c, kconst, kconst], ["concat", kconst, kconst, x], ["add", kconst, kconst], ["extract", w - 1, 0, ["concat", x, y]],
                ["extract", w - 1, 0, ["concat", kconst, y]], ["extract", 2 * w - 1, w, ["concat", x, y]], ["and", x, ["bvv", 0, w]], ["xor", x, x], ["sub", x, x],
                ["or", x, ["bvv", 0, w]], ["mul", ["mul", x, kconst], kconst], ["band", c, ["boolv", True]], ["bor", c, ["boolv", True]], ["bnot", ["bnot", c]],
                ["eq", x, x], ["extract", 0, 0, ["zext", 3, x]], ["zext", 0, x], ["shl", x, ["bvv", 0, w]], ["lshr", ["zext", w, x], ["bvv", (2 * w - 1) % (1 << 2 * w), 2 * w]],
            ]
            guarded(rng.choice(shapes), "shortcut", rng.choice([0.3, 0.6, 0.9]))
    elif k == "simplify":
        for _ in range(spec["n"]):
            g = G.Gen(rng, nvars=rng.choice([1, 2]), widths=[4, 8, 32], surface=False)
            d = g.any(rng.choice([1, 2, 3]))
            try:
                e = astwork.build_annotated(d, rng, p=0.3)
                if not isinstance(e, claripy.ast.Base) or e.is_leaf():
                    continue
                if rng.random() < 0.7:
                    an = rng.choice([astwork.REL("top"), astwork.NE("top"), astwork.ELIM("top"), astwork.RELTAG("top")])
                    e = e.annotate(an)
                if rng.random() < 0.35:
                    # the top's own annotations edited afterwards: it no longer carries a copy of what its arguments carry
                    how = rng.choice(["replace", "remove-one", "remove-then-annotate", "clear-then-annotate", "clear", "clear"])
                    if how == "replace":
                        e = e.replace_annotations((astwork.NE("edited"),))
                    elif how == "remove-one" and len(e.annotations) > 1:
                        e = e.remove_annotation(rng.choice(e.annotations))
                    elif how == "clear":
                        e = e.clear_annotations()
                        res.count("simplify_top_left_without_annotations")
                    elif how == "remove-then-annotate" and e.annotations:
                        e = e.remove_annotation(rng.choice(e.annotations)).annotate(astwork.REL("edited"))
                    else:
                        e = e.clear_annotations().annotate(astwork.NE("edited"))
                    res.count("simplify_top_annotations_edited")
                    if any(a for x in e.args if isinstance(x, claripy.ast.Base) for a in top_rel(x) if not has(e.annotations, a)):
                        res.count("simplify_top_lacks_an_argument_annotation")
                s = claripy.simplify(e)
            except claripy.errors.ClaripyZeroDivisionError:
                continue
            except claripy.errors.ClaripyError as ex:
                res.count("simplify_raised:" + type(ex).__name__)
                continue
            keep.append((e, s))
            res.case(["simplify", d, repr(e.annotations)], nontrivial=bool(e.annotations))
            res.count("simplify_judged")
            want = list(e.annotations) + [a for x in e.args if isinstance(x, claripy.ast.Base) for a in top_rel(x)]
            # the answer must not depend on whether it comes from simplify's cache: ask again, and once more after the
            # un-annotated expression went through the same cache
            results = [("first call", s)]
            try:
                results.append(("second call", claripy.simplify(e)))
                bare = e.clear_annotations() if hasattr(e, "clear_annotations") else e
                claripy.simplify(bare)
                results.append(("call after the un-annotated expression was simplified", claripy.simplify(e)))
            except claripy.errors.ClaripyError as ex:
                res.count("simplify_raised_again:" + type(ex).__name__)
            res.count("simplify_repeat_judged", len(results) - 1)
            for label, s_ in results:
                bad = [a for a in want if not has(s_.annotations, a)]
                if bad:
                    res.violation({"kind": "annotation", "what": "simplify-dropped-annotation", "when": label, "case": d, "expr": repr(e)[:200], "expr_annotations": repr(e.annotations), "result": repr(s_)[:200], "result_annotations": repr(s_.annotations), "observed": repr(bad[0])})
                    break
    elif k == "substitute":
        # variables of an annotated expression replaced by constants: the nodes above them fold, and what they carried
        # (a pinned annotation on an inner node, a relocatable one) must still be somewhere in the result
        for i in range(spec["n"]):
            g = G.Gen(rng, nvars=rng.choice([1, 2]), widths=[4, 8, 32], surface=False, allow_div=False)
            d = g.any(rng.choice([1, 2, 3]))
            try:
                e = astwork.build_annotated(d, rng, p=0.35)
            except claripy.errors.ClaripyError:
                continue
            if not isinstance(e, claripy.ast.Base) or not e.symbolic:
                continue
            leaves = [x for x in e.leaf_asts() if x.symbolic]
            if not leaves:
                continue
            some = leaves if rng.random() < 0.6 else rng.sample(leaves, 1)
            table = {x.hash(): (claripy.BVV(rng.getrandbits(x.length), x.length) if isinstance(x, claripy.ast.BV) else claripy.BoolV(rng.random() < 0.5)) for x in some}
            before_ne = own_ne(e)
            before_rel = top_rel(e)
            try:
                r = claripy.replace_dict(e, dict(table)) if len(some) > 1 or rng.random() < 0.5 else claripy.replace(e, some[0], table[some[0].hash()])
            except claripy.errors.ClaripyError as ex:
                res.count("substitute_raised:" + type(ex).__name__)
                continue
            keep.append((e, r))
            res.case(["substitute", d, repr(sorted(map(repr, before_ne)))[:200]], nontrivial=bool(before_ne or before_rel))
            res.count("substitutions_judged")
            if not r.symbolic:
                res.count("substitutions_folded_to_a_constant")
            after = own_ne(r)
            # (an annotation on a replaced leaf itself goes with the leaf)
            gone_with_leaf = [a for x in some for a in x.annotations]
            lost = [a for a in before_ne if not has(after, a) and not has(gone_with_leaf, a)]
            lost_rel = [a for a in before_rel if not has(r.annotations, a) and not has(gone_with_leaf, a)]
            if lost or lost_rel:
                res.violation({"kind": "annotation", "what": "annotation-removed-by-substitution-and-folding", "case": d, "expr": repr(e)[:200], "result": repr(r)[:120], "result_annotations": repr(r.annotations), "lost": [repr(a) for a in (lost + lost_rel)][:4], "top_relocatable_lost": bool(lost_rel)})
    elif k == "solver":
        for i in range(spec["n"]):
            cls = [claripy.Solver, claripy.SolverComposite, claripy.SolverCacheless, claripy.SolverHybrid, claripy.SolverReplacement][i % 5]
            s = cls()
            g = G.Gen(rng, nvars=2, widths=[8], surface=False, allow_div=False)
            cons, marked = [], []
            for _ in range(rng.choice([2, 3, 5])):
                try:
                    c = bvb.build(g.boolx(2))
                except claripy.errors.ClaripyError:
                    continue
                if c.is_true() or c.is_false():
                    continue
                if rng.random() < 0.25:
                    # a conjunction over (mostly) separate variables: solvers that split constraints by variable must
                    # keep it in one piece
                    try:
                        c2 = bvb.build(G.Gen(rng, nvars=1, widths=[8], surface=False, allow_div=False).boolx(1))
                        c2 = claripy.replace(c2, claripy.BVS("a8", 8, explicit_name=True), claripy.BVS("z8", 8, explicit_name=True))
                        if not (c2.is_true() or c2.is_false()):
                            c = claripy.And(c, c2)
                    except claripy.errors.ClaripyError:
                        pass
                    if c.op == "And":
                        res.count("marked_conjunctions_tried")
                if rng.random() < 0.6:
                    c = c.annotate(claripy.SimplificationAvoidanceAnnotation())
                    marked.append(c)
                cons.append(c)
            if not marked:
                continue
            try:
                s.add(cons)
                before = [c for c in s.constraints]
                mode = i % 4
                if mode == 1:
                    # the queries that simplify first
                    v_ = claripy.BVS("a8", 8, explicit_name=True)
                    try:
                        s.max(v_)
                        s.eval(v_, 3)
                    except claripy.errors.UnsatError:
                        pass
                elif mode == 2:
                    # a copy that got one more constraint of its own
                    s = s.branch()
                    s.add([claripy.BVS("b8", 8, explicit_name=True) != rng.getrandbits(8)])
                elif mode == 3:
                    s.simplify()
                    s.add([claripy.BVS("a8", 8, explicit_name=True) != rng.getrandbits(8)])
                s.simplify()
                after = list(s.constraints)
            except claripy.errors.ClaripyError as ex:
                res.count("solver_raised:" + type(ex).__name__)
                continue
            except Exception as ex:  # noqa: BLE001  (crashes of solver operations are not this property's subject)
                res.count("solver_raised_other:" + type(ex).__name__)
                res.setadd("solver_other_exceptions", f"{cls.__name__}: {ex!r}"[:200])
                continue
            res.case(["solver", cls.__name__, [repr(c) for c in cons]], True)
            res.count("solver_simplify_judged")
            for c in marked:
                # (a constraint the solver took apart when it was added has been rewritten just as well)
                if not any(a is c for a in after):
                    res.violation({"kind": "annotation", "what": "solver-rewrote-avoidance-annotated-constraint", "solver": cls.__name__, "constraint": repr(c)[:200], "before": [repr(b)[:120] for b in before], "after": [repr(a)[:120] for a in after]})
                    break


def replay(w, res):
    import claripy

    if "case" in w:
        build_monitored(w["case"], random.Random(0), res, 0.5, "replay")
