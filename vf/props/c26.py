"""C26 — values extracted from models are values the expression actually takes."""
from __future__ import annotations

import json
import math
import os
import random
import struct
import traceback

PID = "C26"
LEVEL = "exploration"
RULE = (
    "cases: constraint sets that pin or bound an expression near a boundary value of its sort - bitvectors of width "
    "1..256 (0, 1, 2^k, 2^k+-1, sign boundary, all-ones, values above 2^64), floats and doubles (+-0, min/max "
    "subnormal, min/max normal, +-inf, NaN, ties, values near 2^24/2^53/2^63) pinned by bit pattern, by IEEE "
    "comparison or by arithmetic, strings over NUL / backslash / escape-like / non-ASCII code points pinned by "
    "equality, length or containment - plus random constraint sets; every value returned by eval, batch_eval, min "
    "and max of Solver, SolverCacheless, SolverComposite and SolverStrings is one judged value.  Oracle: the Python "
    "type and range of the value, then an independent Z3 query (private context): reference constraints AND "
    "(reference expression = literal(value)) must be satisfiable, with floats compared by bit pattern (NaN by isNaN) "
    "and strings by code points; batch_eval tuples must be jointly satisfiable.  Non-trivial: the judged value came "
    "from a solver model (not a constant expression); distinct by (constraints, expression, operation) hash."
    " Session 4: queries under an extra constraint tying the expression to a separately constrained variable; copies taken right after an add; solvers combined after each has solved."
)
ASSUMPTIONS = ["a NaN returned for an FP expression is judged by isNaN only (SMT-LIB has one NaN)"]


def floors(tier):
    return {"queries_with_linking_extra_constraint": 100 if tier == "quick" else 800, "values_judged": 1500 if tier == "quick" else 12000, "values:bv": 600, "values:fp": 300, "values:str": 150, "fp_special_values_seen": 6, "bv_wide_values": 100}


def plan(tier, seed):
    q = tier == "quick"
    S = [{"kind": "bv", "stream": i, "n": 60 if q else 400} for i in range(6 if q else 8)]
    S += [{"kind": "fp", "stream": i, "n": 35 if q else 300} for i in range(6 if q else 8)]
    S += [{"kind": "str", "stream": i, "n": 60 if q else 600} for i in range(2 if q else 4)]
    S += [{"kind": "mixed", "stream": i, "n": 60 if q else 600} for i in range(2 if q else 4)]
    return S


def fbits(x, S):
    return struct.unpack("<I", struct.pack("<f", x))[0] if S == "F" else struct.unpack("<Q", struct.pack("<d", x))[0]


def run_shard(spec, res):
    import claripy
    import z3

    from vf.gen import exprgen as G
    from vf.gen import fpbuild, strbuild
    from vf.gen import build as bvb
    from vf.ref import bvsem, fpref, strref, z3ref

    rng = random.Random(f"{spec['seed']}:{PID}:{spec['kind']}:{spec.get('stream')}")
    kind = spec["kind"]
    c = z3ref.ctx()
    solvers = [lambda: claripy.Solver(timeout=5000), lambda: claripy.SolverCacheless(timeout=5000), lambda: claripy.SolverComposite(template_solver=claripy.solvers.SolverCompositeChild(timeout=5000))]
    keep = []

    def fam_of(d):
        so = fpref.sort_of(d) if not _is_str(d) else strref.sort_of(d)
        return so

    def _is_str(d):
        return _has(d, ("strs", "strv", "slen", "sconcat", "ssubstr", "sreplace", "sindexof", "stoint", "inttostr", "scontains", "sprefix", "ssuffix", "seq", "sne"))

    def _has(d, ops):
        if not isinstance(d, list):
            return False
        if d and isinstance(d[0], str) and d[0].split("@")[0] in ops:
            return True
        return any(_has(x, ops) for x in d[1:] if isinstance(x, list) and not (x and isinstance(x[0], int)))

    def build(d):
        a = (strbuild.build if _is_str(d) else fpbuild.build)(d)
        keep.append(a)
        return a

    def rterm(d):
        return strref.term(d) if _is_str(d) else fpref.term(d)

    def literal_eq(d, R, v):
        """Z3 Bool: reference expression R (for descriptor d) takes exactly the Python value v; or an error string"""
        so = strref.sort_of(d) if _is_str(d) else fpref.sort_of(d)
        if so[0] == "bv":
            if isinstance(v, bool) or not isinstance(v, int) or not 0 <= v < (1 << so[1]):
                return f"value {v!r} is not an int in [0, 2^{so[1]})"
            return R == z3.BitVecVal(v, so[1], ctx=c)
        if so[0] == "bool":
            if not isinstance(v, bool):
                return f"value {v!r} is not a bool"
            return R == z3.BoolVal(v, ctx=c)
        if so[0] == "fp":
            if not isinstance(v, float):
                return f"value {v!r} is not a float"
            S = so[1]
            if math.isnan(v):
                return z3.fpIsNaN(R, ctx=c)
            if S == "F":
                try:
                    if struct.unpack("<f", struct.pack("<f", v))[0] != v:
                        return f"value {v!r} is not representable in single precision"
                except OverflowError:
                    return f"value {v!r} is not representable in single precision"
            return z3.fpToIEEEBV(R, ctx=c) == z3.BitVecVal(fbits(v, S), fpref.nbits(S), ctx=c)
        if so[0] == "str":
            if not isinstance(v, str):
                return f"value {v!r} is not a str"
            return R == strref.lit([ord(ch) for ch in v])
        return "unknown sort"

    def judge_value(fam, cons_d, e_d, v, op, solver_name, hyp_extra=()):
        res.count("values_judged")
        res.count("values:" + fam)
        R = rterm(e_d)
        lit = literal_eq(e_d, R, v)
        base = {"kind": "model-value", "family": fam, "solver": solver_name, "op": op, "constraints": cons_d, "expr": e_d, "observed": repr(v)}
        if isinstance(lit, str):
            res.violation({**base, "what": "value-has-wrong-type-or-range", "detail": lit})
            return False
        if fam == "fp" and isinstance(v, float):
            if math.isnan(v) or math.isinf(v) or v == 0 or abs(v) < 2.3e-308:
                res.setadd("fp_special_values", "nan" if math.isnan(v) else repr(v))
        if fam == "bv" and isinstance(v, int) and v >= (1 << 64):
            res.count("bv_wide_values")
        sat, _m = z3ref.is_sat([rterm(x) for x in cons_d] + list(hyp_extra) + [lit], timeout_ms=8000)
        if sat is None:
            res.count("oracle_unknown")
            return True
        if sat is False and _nan_pattern_exempt(cons_d, e_d):
            # the bit pattern of a NaN is unspecified in SMT-LIB: whatever claripy reports for fpToIEEEBV(NaN) is exempt
            res.count("exempt_nan_bit_pattern")
            return True
        if sat is False:
            res.violation({**base, "what": "returned-value-is-not-a-value-of-the-expression-in-any-model"})
            return False
        return True

    def _fp2ieee_args(d, acc):
        if isinstance(d, list) and d and isinstance(d[0], str):
            if d[0] == "fp2ieee":
                acc.append(d[1])
            for x in d[1:]:
                if isinstance(x, list):
                    _fp2ieee_args(x, acc)
        return acc

    def _nan_pattern_exempt(cons_d, e_d):
        for arg in _fp2ieee_args(e_d, []):
            ok, _m = z3ref.is_sat([rterm(x) for x in cons_d] + [z3.fpIsNaN(rterm(arg), ctx=c)], timeout_ms=8000)
            if ok is not False:
                return True
        return False

    def _vkey(v):
        return ("nan",) if isinstance(v, float) and math.isnan(v) else (math.copysign(1.0, v), v) if isinstance(v, float) else v

    def run_queries(fam, cons_d, exprs_d, scls):
        s = scls()
        sname = type(s).__name__
        if os.environ.get("VF_TRACE_CASES"):
            # development aid: the case about to run, flushed (so that a native crash leaves its input behind)
            with open(os.environ["VF_TRACE_CASES"], "a") as tf_:
                tf_.write(json.dumps([fam, sname, cons_d, exprs_d], default=repr) + "\n")
        try:
            cons = [build(x) for x in cons_d]
            exprs = [build(x) for x in exprs_d]
        except claripy.errors.ClaripyZeroDivisionError:
            return
        # a variable of its own, constrained on its own (a solver that splits by variable keeps it in a separate
        # child): queries with extra constraints tie it to the expression asked about
        link_d = None
        if fam == "bv" and exprs_d and not _is_str(exprs_d[0]):
            so0 = fpref.sort_of(exprs_d[0])
            if so0[0] == "bv":
                wl = so0[1]
                link_d = ["bvs", f"lnk{wl}", wl]
                kk = rng.choice(G.consts(wl, rng, 1))
                link_con = rng.choice([["ule", link_d, ["bvv", kk, wl]], ["uge", link_d, ["bvv", kk, wl]], ["ne", link_d, ["bvv", kk, wl]], ["eq", ["and", link_d, ["bvv", 1, wl]], ["bvv", kk & 1, wl]]])
                cons_d = cons_d + [link_con]
                cons.append(build(link_con))
        try:
            s.add(cons)
            if not s.satisfiable():
                res.count("unsat_sets_skipped")
                return
        except (claripy.errors.ClaripyZ3Error, claripy.errors.ClaripySolverInterruptError):
            res.count("solver_gave_up")
            return
        res.case([fam, sname, cons_d, exprs_d], True)
        # fpToIEEEBV of a float that may be NaN has no specified value (Z3 answers differently from check to check, and
        # claripy's own helper constraints on such a value can contradict each other): not asked
        unspecified = [fam != "str" and _nan_pattern_exempt(cons_d, d) for d in exprs_d]
        if any(unspecified):
            res.count("skipped_unspecified_nan_pattern", sum(unspecified))
            exprs_d = [d for d, u in zip(exprs_d, unspecified) if not u]
            exprs = [e for e, u in zip(exprs, unspecified) if not u]
        for e_d, e in zip(exprs_d, exprs):
            symbolic = isinstance(e, claripy.ast.Base) and e.symbolic
            if not symbolic:
                continue
            so = strref.sort_of(e_d) if _is_str(e_d) else fpref.sort_of(e_d)
            try:
                n = rng.choice([1, 2, 3, 5])
                vals = s.eval(e, n)
                if len({_vkey(v) for v in vals}) != len(vals):
                    res.violation({"kind": "model-value", "what": "eval-returned-duplicates", "family": fam, "solver": sname, "constraints": cons_d, "expr": e_d, "observed": repr(vals)})
                for v in vals:
                    judge_value(fam, cons_d, e_d, v, f"eval({n})", sname)
                if so[0] == "bv":
                    for op in ("min", "max"):
                        for signed in (False, True):
                            v = getattr(s, op)(e, signed=signed)
                            if isinstance(v, int) and not isinstance(v, bool):
                                v &= (1 << so[1]) - 1
                            judge_value(fam, cons_d, e_d, v, f"{op}(signed={signed})", sname)
                    if link_d is not None and so[1] == link_d[2] and e_d is exprs_d[0]:
                        # the same queries under an extra constraint that mentions the separately constrained variable
                        x_d = rng.choice([["eq", e_d, link_d], ["ule", e_d, link_d], ["uge", e_d, link_d], ["eq", ["xor", e_d, link_d], ["bvv", 1 % (1 << so[1]), so[1]]]])
                        x_ast = build(x_d)
                        if s.satisfiable(extra_constraints=[x_ast]):
                            hyp = [rterm(x_d)]
                            res.count("queries_with_linking_extra_constraint")
                            for v in s.eval(e, rng.choice([1, 2, 4]), extra_constraints=[x_ast]):
                                judge_value(fam, cons_d + [x_d], e_d, v, "eval(extra)", sname)
                            for op in ("min", "max"):
                                signed = rng.random() < 0.5
                                v = getattr(s, op)(e, signed=signed, extra_constraints=[x_ast])
                                judge_value(fam, cons_d + [x_d], e_d, v & ((1 << so[1]) - 1), f"{op}(extra, signed={signed})", sname)
                            for t in s.batch_eval([e, build(link_d)], 2, extra_constraints=[x_ast]):
                                la, lb = literal_eq(e_d, rterm(e_d), t[0]), literal_eq(link_d, rterm(link_d), t[1])
                                res.count("values_judged", 2)
                                sat_, _m = z3ref.is_sat([rterm(x) for x in cons_d] + hyp + [la, lb], timeout_ms=8000)
                                if sat_ is False:
                                    res.violation({"kind": "model-value", "what": "batch_eval-tuple-not-jointly-feasible", "family": fam, "solver": sname, "constraints": cons_d + [x_d], "exprs": [e_d, link_d], "observed": repr(t), "op": "batch_eval(extra)"})
            except claripy.errors.UnsatError:
                res.violation({"kind": "model-value", "what": "UnsatError-on-satisfiable", "family": fam, "solver": sname, "constraints": cons_d, "expr": e_d})
            except (claripy.errors.ClaripyZ3Error, claripy.errors.ClaripySolverInterruptError):
                # the backend ran into its time limit: this solver object is not asked anything else (what a solver does
                # after a give-up is C17's subject; libz3 4.13 has been seen to crash on the next check of a solver whose
                # floating-point search was cancelled)
                res.count("solver_gave_up")
                res.count("solver_dropped_after_give_up")
                return
            except claripy.errors.ClaripyError as ex:
                res.violation({"kind": "model-value", "what": "query-raised", "family": fam, "solver": sname, "constraints": cons_d, "expr": e_d, "observed": repr(ex)[:200], "tb": traceback.format_exc()[-1200:]})
        # values must come from *this* solver's models: branch, constrain one side, let the sibling solve, ask again
        if fam == "bv" and exprs_d and rng.random() < 0.5:
            try:
                e_d = exprs_d[0]
                e = exprs[0]
                if isinstance(e, claripy.ast.Base) and e.symbolic:
                    wv = fpref.sort_of(e_d)[1]
                    # a solver of its own that has seen exactly one model so far
                    s = scls()
                    s.add(cons)
                    first = s.eval(e, 1)[0]
                    sib = s.branch()
                    # a constraint the value seen so far satisfies (so cached models survive it), but not every value
                    extra_d = rng.choice([["ule", e_d, ["bvv", first, wv]], ["uge", e_d, ["bvv", first, wv]], ["eq", ["and", e_d, ["bvv", 1, wv]], ["bvv", first & 1, wv]]])
                    s.add([build(extra_d)])
                    for _ in range(2):
                        sib.eval(e, rng.choice([2, 4]))
                        sib.max(e)
                        sib.min(e)
                    cons2 = cons_d + [extra_d]
                    for v in s.eval(e, rng.choice([1, 3, 6])):
                        judge_value(fam, cons2, e_d, v, "eval-after-sibling-solved", sname)
                    for op in ("min", "max"):
                        v = getattr(s, op)(e)
                        judge_value(fam, cons2, e_d, v & ((1 << wv) - 1), op + "-after-sibling-solved", sname)
                    res.count("sibling_scenarios")
                    # a copy taken right after an add (before the solver was asked anything about it) holds it too
                    s3 = scls()
                    s3.add(cons)
                    s3.eval(e, 1)
                    s3.add([build(extra_d)])
                    b3 = s3.branch()
                    for v in b3.eval(e, rng.choice([1, 2, 4])):
                        judge_value(fam, cons2, e_d, v, "eval-on-copy-taken-after-add", sname)
                    for op in ("min", "max"):
                        v = getattr(b3, op)(e)
                        judge_value(fam, cons2, e_d, v & ((1 << wv) - 1), op + "-on-copy-taken-after-add", sname)
                    # solvers that have each solved on their own, put together: two of them are about the same variable
                    # (one bounds it from above, one from below), the receiver is not
                    cv_d = ["bvs", f"cmb{wv}", wv]
                    k_lo = rng.randrange(0, 1 << wv)
                    k_hi = rng.randrange(k_lo, 1 << wv)
                    lo_d, hi_d = ["uge", cv_d, ["bvv", k_lo, wv]], ["ule", cv_d, ["bvv", k_hi, wv]]
                    r_ = scls()
                    r_.add(cons)
                    r_.eval(e, 1)
                    o1, o2 = scls(), scls()
                    o1.add([build(hi_d)])
                    o2.add([build(lo_d)])
                    cv = build(cv_d)
                    o1.min(cv)
                    o2.max(cv)
                    comb = r_.combine([o1, o2])
                    cons3 = cons_d + [lo_d, hi_d]
                    for v in comb.eval(cv, rng.choice([1, 2, 3])):
                        judge_value(fam, cons3, cv_d, v, "eval-on-combined", sname)
                    for op in ("min", "max"):
                        judge_value(fam, cons3, cv_d, getattr(comb, op)(cv) & ((1 << wv) - 1), op + "-on-combined", sname)
                    res.count("copy_and_combine_scenarios")
                    cons_d = cons2
            except claripy.errors.UnsatError:
                res.violation({"kind": "model-value", "what": "UnsatError-on-satisfiable", "family": fam, "solver": sname, "constraints": cons_d, "expr": exprs_d[0], "op": "after-sibling-solved"})
            except (claripy.errors.ClaripyZ3Error, claripy.errors.ClaripySolverInterruptError):
                res.count("solver_gave_up")
        # batch_eval: joint feasibility
        sym = [(d, e) for d, e in zip(exprs_d, exprs) if isinstance(e, claripy.ast.Base) and e.symbolic]
        if len(sym) >= 2:
            try:
                tuples = s.batch_eval([e for _, e in sym], rng.choice([1, 2, 3]))
                for t in tuples:
                    lits = []
                    ok = True
                    for (d, _e), v in zip(sym, t):
                        lit = literal_eq(d, rterm(d), v)
                        if isinstance(lit, str):
                            res.violation({"kind": "model-value", "what": "value-has-wrong-type-or-range", "family": fam, "solver": sname, "op": "batch_eval", "constraints": cons_d, "expr": d, "observed": repr(v), "detail": lit})
                            ok = False
                            break
                        lits.append(lit)
                    if not ok:
                        continue
                    res.count("values_judged", len(t))
                    res.count("values:" + fam, len(t))
                    res.count("batch_tuples_judged")
                    sat, _m = z3ref.is_sat([rterm(x) for x in cons_d] + lits, timeout_ms=8000)
                    if sat is False:
                        res.violation({"kind": "model-value", "what": "batch_eval-tuple-not-jointly-feasible", "family": fam, "solver": sname, "constraints": cons_d, "exprs": [d for d, _ in sym], "observed": repr(t)})
            except claripy.errors.UnsatError:
                res.violation({"kind": "model-value", "what": "UnsatError-on-satisfiable", "family": fam, "solver": sname, "constraints": cons_d, "exprs": [d for d, _ in sym]})
            except (claripy.errors.ClaripyZ3Error, claripy.errors.ClaripySolverInterruptError):
                res.count("solver_gave_up")
            except claripy.errors.ClaripyError as ex:
                res.violation({"kind": "model-value", "what": "query-raised", "family": fam, "solver": sname, "op": "batch_eval", "constraints": cons_d, "observed": repr(ex)[:200], "tb": traceback.format_exc()[-1200:]})

    for it in range(spec["n"]):
        try:
            if kind == "bv":
                w = rng.choice([1, 2, 8, 16, 32, 63, 64, 65, 96, 128, 200, 256])
                x, y = G.bvs("x", w), G.bvs("y", w)
                k = ["bvv", rng.choice(G.consts(w, rng, 2)), w]
                k2 = ["bvv", rng.choice(G.consts(w, rng, 2)), w]
                shape = rng.randrange(8)
                cons = [
                    [["eq", x, k]],
                    [["uge", x, k], ["ule", x, ["add", k, ["bvv", 3 % (1 << w), w]]]],
                    [["sge", x, k], ["sle", x, k2]],
                    [["eq", ["add", x, y], k], ["ult", y, ["bvv", 4 % (1 << w) or 1, w]]],
                    [["eq", ["and", x, k], k2]],
                    [["eq", ["concat", x, y], ["concat", k, k2]]],
                    [["bor", ["eq", x, k], ["eq", x, k2]]],
                    [["ne", x, k], ["eq", ["lshr", x, ["bvv", 1 % (1 << w), w]], ["lshr", k2, ["bvv", 1 % (1 << w), w]]]],
                ][shape]
                second = [["add", x, ["bvv", 1 % (1 << w), w]], ["concat", x, y], ["inv", x], ["zext", 7, x], ["extract", w - 1, w // 2, x], ["sext", 64, x]]
                if w <= 64:
                    second.append(["mul", x, y])  # (wide symbolic multiplications only measure Z3)
                exprs = [x, rng.choice(second), y]
                run_queries("bv", cons, exprs, rng.choice(solvers))
            elif kind == "fp":
                S = rng.choice("FD")
                n = fpref.nbits(S)
                f, g = ["fps", "f" + S, S], ["fps", "g" + S, S]
                pool = fpbuild.pool_bits(S)
                b1, b2 = rng.choice(pool), rng.choice(pool)
                A, Bc = ["fpv", b1, S], ["fpv", b2, S]
                rm = rng.choice(["RNE", "RNA", "RTZ", "RTP", "RTN"])
                shape = rng.randrange(9)
                cons = [
                    [["eq", ["fp2ieee", f], ["bvv", b1, n]]],
                    [["fpeq", f, A]],
                    [["fpisnan", f]],
                    [["fpisinf", f], ["fplt", f, ["fpv", 0, S]]],
                    [["fpgeq", f, A], ["fpleq", f, Bc]],
                    [["fpeq", ["fpadd", rm, f, A], Bc]],
                    [["fpeq", ["fpmul", rm, f, ["fpv", fbits(2.0, S), S]], A]],
                    [["eq", ["fp2ieee", f], ["bvv", b1, n]], ["eq", ["fp2ieee", g], ["bvv", b2, n]]],
                    [["fplt", ["fpabs", f], ["fpv", fbits(1e-40 if S == "F" else 1e-310, S), S]], ["bnot", ["fpeq", f, ["fpv", 0, S]]]],
                ][shape]
                other = "D" if S == "F" else "F"
                exprs = [f, rng.choice([["fpneg", f], ["fpadd", rm, f, g], ["fp2fp", rm, f, other], ["fpabs", f], ["fpdiv", rm, f, g], ["fpsqrt", rm, f], ["fp2ieee", f], ["fpmul", rm, f, A]]), g]
                run_queries("fp", cons, exprs, rng.choice(solvers))
            elif kind == "str":
                sv, tv = ["strs", "sv"], ["strs", "tv"]
                pool = strbuild.pool()
                L = rng.choice(pool)
                L2 = rng.choice(pool)
                shape = rng.randrange(6)
                cons = [
                    [["seq", sv, L]],
                    [["seq", ["sconcat", sv, L2], ["sconcat", L, L2]]],
                    [["scontains", L, sv], ["eq", ["slen", sv], ["bvv", min(2, len(L[1])), 64]]],
                    [["sprefix", L, sv], ["eq", ["slen", sv], ["bvv", len(L[1]) + 1, 64]]],
                    [["seq", sv, L], ["seq", tv, ["sconcat", sv, L2]]],
                    [["seq", ["sreplace", sv, L2, L], L], ["ule", ["slen", sv], ["bvv", 3, 64]]],
                ][shape]
                exprs = [sv, rng.choice([["sconcat", sv, L2], ["slen", sv], ["ssubstr", ["bvv", 0, 64], ["bvv", 2, 64], sv], ["sindexof", sv, L2, ["bvv", 0, 64]], ["sreplace", sv, L2, strbuild.S("#")]]), tv]
                run_queries("str", cons, exprs, lambda: claripy.SolverStrings(timeout=3000))
            else:
                # mixed sorts in one batch: BV and FP together
                w = rng.choice([8, 64, 128])
                S = rng.choice("FD")
                x = G.bvs("x", w)
                f = ["fps", "f" + S, S]
                b1 = rng.choice(fpbuild.pool_bits(S))
                cons = [["eq", ["fp2ieee", f], ["bvv", b1, fpref.nbits(S)]], ["uge", x, ["bvv", rng.choice(G.consts(w)), w]]]
                exprs = [x, f, ["fpneg", f]]
                run_queries("fp", cons, exprs, rng.choice(solvers))
        except Exception as ex:  # noqa: BLE001
            res.violation({"kind": "model-value", "what": "harness-exception", "observed": repr(ex)[:300], "tb": traceback.format_exc()[-1500:]})
        if len(keep) > 500:
            del keep[:250]
    res.count("fp_special_values_seen", len(res.sets.get("fp_special_values", ())))


def replay(w, res):
    res.inconc("C26 replay: re-run the shard kind named in the witness")
