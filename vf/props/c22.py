"""C22 — strided-interval joins, meets, widening and queries agree with their members."""
from __future__ import annotations

import itertools
import random

PID = "C22"
LEVEL = "exploration"
RULE = (
    "a case is one join-like operation (union, least_upper_bound of 2 or 3 intervals, widen, intersection) or one "
    "query bundle (eval(n) for n in {0,1,2,3,cardinality,cardinality+1,40} signed and unsigned, min/max signed and "
    "unsigned, cardinality, solution(v) for every v at small widths / members, neighbours and random values at "
    "large ones) on real StridedInterval objects, plus the same queries asked through claripy.backends.vsa on "
    "claripy.SI(...) expressions.  Monitor/oracle: gamma is computed from the four stored numbers "
    "(vf/ref/sigamma.py); union/lub/widen must contain both operands' members, intersection every common member; "
    "eval(n) must return min(n, |gamma|) pairwise-distinct members and nothing else; min/max must be the extreme "
    "member in the requested signedness; cardinality must be |gamma|; solution(v) must be exactly v in gamma.  "
    "Domain: every well-formed interval (pair) at widths 1..3, width 4 (quick: sample of pairs), random "
    "boundary-biased ones at 8/16/32/64 bits (membership arithmetic; common members searched by the Chinese "
    "remainder theorem on the two progressions' first 4096 terms).  Non-trivial: an operand is not a singleton."
)
ASSUMPTIONS = [
    "well-formed intervals only: stride 0 iff singleton, otherwise 1 <= stride <= span and the upper bound on the progression (for other upper bounds claripy's own eval and max disagree, pinned by tests/test_vsa.py::test_reversed_concat)",
]


def floors(tier):
    q = tier == "quick"
    return {"judged:join": 50000 if q else 10**6, "judged:meet": 20000 if q else 400000, "judged:widen": 20000 if q else 400000, "judged:query": 20000 if q else 100000, "judged:backend": 300, "judged:wide": 5000 if q else 60000}


def plan(tier, seed):
    q = tier == "quick"
    S = [{"kind": "exh", "w": 1, "part": 0, "of": 1, "frac": 1.0}, {"kind": "exh", "w": 2, "part": 0, "of": 1, "frac": 1.0}]
    S += [{"kind": "exh", "w": 3, "part": i, "of": 6, "frac": 1.0} for i in range(6)]
    S += [{"kind": "exh", "w": 4, "part": i, "of": 12, "frac": (0.1 if q else 1.0)} for i in range(12)]
    if not q:
        S += [{"kind": "exh", "w": 5, "part": i, "of": 16, "frac": 0.03} for i in range(16)]
    S += [{"kind": "lub3", "w": 3, "stream": i, "n": 4000 if q else 60000} for i in range(2 if q else 6)]
    S += [{"kind": "wide", "stream": i, "n": 4000 if q else 50000} for i in range(6 if q else 16)]
    S += [{"kind": "backend", "n": 400 if q else 4000}]
    return S


def apply(res, op, fn, *a):
    try:
        return True, fn(*a)
    except Exception as e:  # noqa: BLE001
        res.count("ops_raised")
        res.count("ops_raised:" + op)
        res.setadd("ops_raised_types", f"{op}:{type(e).__name__}:{str(e)[:70]}")
        return False, None


def _viol(res, what, ts, observed, **kw):
    from vf.ref import sigamma as G

    res.count("wrong:" + what)
    res.violation({"kind": "si-set", "mon": "M-si", "what": what, "op": what, "operands": [list(t) for t in ts], "classes": [G.classify(t) for t in ts], "observed": observed, **kw})


# ------------------------------------------------------------------------------------------ oracles
def judge_join(res, name, ts, result, member_lists, tag=""):
    from vf.mon import vsaops as V
    from vf.ref import sigamma as G

    if not hasattr(result, "lower_bound"):
        res.count("not_an_si_result:" + name)
        return
    rt = V.tup(result)
    miss = [[i, v] for i, ms in enumerate(member_lists) for v in ms if not G.member(rt, v)][:6]
    res.count("judged:join" if name != "widen" else "judged:widen")
    res.count("judged:" + name)
    if tag:
        res.count("judged:" + tag)
    if miss:
        _viol(res, name + "-loses-member", ts, list(rt), missing=miss)


def judge_meet(res, ts, result, common, tag=""):
    from vf.mon import vsaops as V
    from vf.ref import sigamma as G

    if not hasattr(result, "lower_bound"):
        res.count("not_an_si_result:intersection")
        return
    rt = V.tup(result)
    miss = [v for v in common if not G.member(rt, v)][:6]
    res.count("judged:meet")
    if tag:
        res.count("judged:" + tag)
    if miss:
        _viol(res, "intersection-loses-common-member", ts, list(rt), missing=miss)


def judge_queries(res, t, obj, rng, tag=""):
    """eval / min / max / cardinality / solution on one interval"""
    from vf.ref import bvsem
    from vf.ref import sigamma as G

    bits = t[0]
    m = bvsem.mask(bits)
    card = G.count(t)
    small = card <= 4096
    mem = sorted(G.gamma(t)) if small else None
    res.count("judged:query")
    if tag:
        res.count("judged:" + tag)
    # cardinality
    ok, c = apply(res, "cardinality", lambda o: o.cardinality, obj)
    if ok and c != card:
        _viol(res, "cardinality", (t,), c, expected=card)
    # min / max
    for signed in (False, True):
        key = (lambda v: bvsem.signed(v, bits)) if signed else (lambda v: v)
        if small:
            want_min, want_max = (min(mem, key=key), max(mem, key=key)) if mem else (None, None)
        else:
            want_min = want_max = None
        for name, want in (("min", want_min), ("max", want_max)):
            ok, got = apply(res, name, lambda o: getattr(o, name)(signed=signed), obj)
            if not ok:
                continue
            if card == 0:
                if got is not None:
                    _viol(res, name + "-of-empty", (t,), got)
                continue
            if got is None or not G.member(t, got & m):
                _viol(res, name + "-not-a-member", (t,), got, signed=signed)
            elif want is not None and (got & m) != want:
                _viol(res, name + "-not-extreme", (t,), got, expected=want, signed=signed)
            elif want is None:
                # large interval: no member may lie beyond the answer; probe the neighbours on the progression
                for v in G.sample_members(t, rng, 8):
                    if (name == "min" and key(v) < key(got & m)) or (name == "max" and key(v) > key(got & m)):
                        _viol(res, name + "-not-extreme", (t,), got, witness=v, signed=signed)
                        break
    # eval
    for signed in (False, True):
        for n in sorted({0, 1, 2, 3, min(card, 50), min(card + 1, 51), 40}):
            ok, got = apply(res, "eval", lambda o: o.eval(n, signed=signed), obj)
            if not ok:
                continue
            got = list(got)
            vals = [g & m for g in got]
            if any(not G.member(t, v) for v in vals):
                _viol(res, "eval-non-member", (t,), got[:12], n=n, signed=signed)
            elif len(set(vals)) != len(vals):
                _viol(res, "eval-duplicates", (t,), got[:12], n=n, signed=signed)
            elif len(vals) != min(n, card):
                _viol(res, "eval-wrong-count", (t,), got[:12], n=n, expected_count=min(n, card), signed=signed)
            elif signed and any(not (-(1 << (bits - 1)) <= g <= m) for g in got):
                _viol(res, "eval-out-of-range", (t,), got[:12], n=n, signed=signed)
    # membership
    if bits <= 5:
        cands = range(1 << bits)
    else:
        cands = set(G.sample_members(t, rng, 6)) if card else set()
        cands |= {(v + d) & m for v in list(cands) for d in (-1, 1)} | {0, m, 1 << (bits - 1), rng.getrandbits(bits), t[2], t[3], (t[2] - 1) & m, (t[3] + 1) & m}
    for v in cands:
        ok, got = apply(res, "solution", lambda o: o.solution(v), obj)
        if ok and bool(got) != G.member(t, v):
            _viol(res, "solution", (t,), bool(got), value=v, expected=G.member(t, v))
            break


# ------------------------------------------------------------------------------------------ shards
def pair_ops(res, ta, tb, ga, gb, tag):
    from claripy.backends.backend_vsa import StridedInterval

    from vf.mon import vsaops as V

    ts = (ta, tb)
    ok, r = apply(res, "union", lambda a, b: a.union(b), V.mk(ta), V.mk(tb))
    if ok:
        judge_join(res, "union", ts, r, (ga, gb), tag)
    ok, r = apply(res, "lub", lambda a, b: StridedInterval.least_upper_bound(a, b), V.mk(ta), V.mk(tb))
    if ok:
        judge_join(res, "lub", ts, r, (ga, gb), tag)
    ok, r = apply(res, "widen", lambda a, b: a.widen(b), V.mk(ta), V.mk(tb))
    if ok:
        judge_join(res, "widen", ts, r, (ga, gb), tag)
    ok, r = apply(res, "intersection", lambda a, b: a.intersection(b), V.mk(ta), V.mk(tb))
    if ok:
        sb = set(gb)
        judge_meet(res, ts, r, [v for v in ga if v in sb], tag)


def run_shard(spec, res):
    import sys

    from vf.mon import vsaops as V
    from vf.props.c21 import rand_si
    from vf.ref import sigamma as G

    sys.setrecursionlimit(400)
    kind = spec["kind"]
    rng = random.Random(f"{spec['seed']}:{PID}:{kind}:{spec.get('w')}:{spec.get('stream')}:{spec.get('part')}")
    if kind == "exh":
        w = spec["w"]
        sis = G.all_sis(w, aligned_only=True) + [(w, 1, 0, 0, True, False)]
        gam = {t: sorted(G.gamma(t)) for t in sis}
        mine = sis[spec["part"] :: spec["of"]]
        for ta in mine:
            judge_queries(res, ta, V.mk(ta), rng, f"exh{w}")
            res.case(["query", list(ta)], ta[1] != 0)
            for tb in sis:
                if spec["frac"] < 1 and rng.random() >= spec["frac"]:
                    continue
                pair_ops(res, ta, tb, gam[ta], gam[tb], f"exh{w}")
                res.case(["pair", list(ta), list(tb)], ta[1] != 0 or tb[1] != 0, sample={"ops": "union/lub/widen/intersection", "operands": [list(ta), list(tb)]})
        res.count(f"domain_size:w{w}", len(sis) if spec["part"] == 0 else 0)
    elif kind == "lub3":
        from claripy.backends.backend_vsa import StridedInterval

        w = spec["w"]
        sis = G.all_sis(w, aligned_only=True)
        for _ in range(spec["n"]):
            k = rng.choice([3, 3, 4, 5])
            ts = [rng.choice(sis) for _ in range(k)]
            ok, r = apply(res, "lub3", lambda *a: StridedInterval.least_upper_bound(*a), *[V.mk(t) for t in ts])
            if ok:
                judge_join(res, "lub3", ts, r, [sorted(G.gamma(t)) for t in ts], "lub3")
            res.case(["lub3", [list(t) for t in ts]], True)
    elif kind == "wide":
        for _ in range(spec["n"]):
            w = rng.choice([8, 8, 16, 32, 64])
            ta, tb = rand_si(rng, w), rand_si(rng, w)
            if rng.random() < 0.3:
                # make them overlap: same stride class, shifted bounds
                d = rng.randrange(0, 5) * max(ta[1], 1)
                tb = (w, ta[1], (ta[2] + d) & ((1 << w) - 1), (ta[3] + d) & ((1 << w) - 1), False, False)
                if tb[2] == tb[3]:
                    tb = (w, 0, tb[2], tb[2], False, False)
            A, B = V.mk(ta), V.mk(tb)
            tA, tB = V.tup(A), V.tup(B)
            ga, gb = G.sample_members(tA, rng), G.sample_members(tB, rng)
            common = _common(tA, tB, rng)
            ts = (tA, tB)
            from claripy.backends.backend_vsa import StridedInterval

            for name, fn in (("union", lambda a, b: a.union(b)), ("lub", lambda a, b: StridedInterval.least_upper_bound(a, b)), ("widen", lambda a, b: a.widen(b))):
                ok, r = apply(res, name, fn, V.mk(ta), V.mk(tb))
                if ok:
                    judge_join(res, name, ts, r, (ga, gb), "wide")
            ok, r = apply(res, "intersection", lambda a, b: a.intersection(b), V.mk(ta), V.mk(tb))
            if ok:
                judge_meet(res, ts, r, common, "wide")
                res.count("wide_common_members", len(common))
            judge_queries(res, tA, A, rng, "wide")
            res.case(["wide", list(ta), list(tb)], True, sample={"operands": [list(ta), list(tb)]})
    elif kind == "backend":
        backend_shard(spec, res, rng)


def _common(ta, tb, rng):
    """some common members of two (possibly huge) progressions: scan the first/last terms of one against the other"""
    from vf.ref import sigamma as G

    out = []
    for src, other in ((ta, tb), (tb, ta)):
        c = G.count(src)
        ks = list(range(min(c, 600))) + list(range(max(0, c - 600), c))
        for k in ks:
            v = G.kth(src, k)
            if G.member(other, v):
                out.append(v)
                if len(out) > 40:
                    return out
    return out


def backend_shard(spec, res, rng):
    """the same queries through the VSA backend on SI expressions (what frontends call)"""
    import claripy

    from vf.props.c21 import rand_si
    from vf.ref import bvsem
    from vf.ref import sigamma as G

    be = claripy.backends.vsa
    # join / meet / widen written as expressions (claripy.union, ...), also between a value and its own byte-reversed or
    # shifted copy: the result must contain the members of both operands
    from vf.props import c23

    for i in range(max(40, spec["n"] // 4)):
        w = rng.choice([16, 16, 32])
        t = rand_si(rng, w)
        while G.count(t) > 40:
            t = rand_si(rng, w)
        bits, stride, lb, ub, _, _ = t
        x = claripy.SI(bits=bits, stride=stride, lower_bound=lb, upper_bound=ub, name=f"u{i}")
        t2 = rand_si(rng, w)
        while G.count(t2) > 40:
            t2 = rand_si(rng, w)
        y = claripy.SI(bits=w, stride=t2[1], lower_bound=t2[2], upper_bound=t2[3])
        gx = sorted(G.gamma(t))
        other, gother, oname = rng.choice([(claripy.Reverse(x), [G.bswap(v, w) for v in gx], "reverse-of-same"), (x + 1, [(v + 1) & bvsem.mask(w) for v in gx], "same-plus-1"), (y, sorted(G.gamma(t2)), "other"), (claripy.Reverse(y), [G.bswap(v, w) for v in sorted(G.gamma(t2))], "reverse-of-other")])
        for opn, fn in (("union", claripy.union), ("widen", claripy.widen)):
            for a_, b_ in ((x, other), (other, x)):
                try:
                    obj = be.convert(fn(a_, b_))
                except Exception as ex_:  # noqa: BLE001
                    res.count("backend_setop_raised")
                    res.setadd("backend_setop_raised", f"{opn}:{type(ex_).__name__}:{str(ex_)[:60]}")
                    continue
                res.count("judged:backend-setop")
                res.count("judged:backend-setop:" + oname)
                miss = [v for v in gx + gother if not c23.in_abs(obj, v)]
                if miss:
                    _viol(res, f"backend-{opn}-misses-member-of-an-operand", (t,), c23.describe(obj), other=oname, missing=miss[:6])
    for i in range(spec["n"]):
        w = rng.choice([3, 4, 8, 16, 32, 64])
        t = rand_si(rng, w) if w > 4 else rng.choice(G.all_sis(w, aligned_only=True))
        bits, stride, lb, ub, _, _ = t
        ast = claripy.SI(bits=bits, stride=stride, lower_bound=lb, upper_bound=ub)
        m = bvsem.mask(bits)
        card = G.count(t)
        res.count("judged:backend")
        res.case(["backend", list(t)], stride != 0)
        for signed in (False, True):
            key = (lambda v: bvsem.signed(v, bits)) if signed else (lambda v: v)
            for name in ("min", "max"):
                ok, got = apply(res, "backend." + name, lambda: getattr(be, name)(ast, signed=signed))
                if ok and (got is None or not G.member(t, got & m)):
                    _viol(res, "backend-" + name + "-not-a-member", (t,), got, signed=signed)
                elif ok and card <= 4096:
                    mem = G.gamma(t)
                    want = (min if name == "min" else max)(mem, key=key)
                    if (got & m) != want:
                        _viol(res, "backend-" + name + "-not-extreme", (t,), got, expected=want, signed=signed)
        for n in (1, 2, 5, 300):
            ok, got = apply(res, "backend.eval", lambda: be.eval(ast, n))
            if ok:
                got = list(got)
                vals = [g & m for g in got]
                if any(not G.member(t, v) for v in vals) or len(set(vals)) != len(vals) or len(vals) != min(n, card):
                    _viol(res, "backend-eval", (t,), got[:12], n=n, expected_count=min(n, card))
        vs = (G.sample_members(t, rng, 4) if card else []) + [rng.getrandbits(bits), (lb - 1) & m, (ub + 1) & m]
        for v in vs:
            ok, got = apply(res, "backend.solution", lambda: be.solution(ast, v))
            if ok and bool(got) != G.member(t, v):
                _viol(res, "backend-solution", (t,), bool(got), value=v, expected=G.member(t, v))
        ok, c = apply(res, "backend.cardinality", lambda: be.cardinality(ast))
        if ok and c != card:
            _viol(res, "backend-cardinality", (t,), c, expected=card)


def replay(w, res):
    import random as _r

    from vf.mon import vsaops as V
    from vf.ref import sigamma as G

    ts = [tuple(t) for t in w["operands"]]
    rng = _r.Random(0)
    if len(ts) == 1:
        judge_queries(res, ts[0], V.mk(ts[0]), rng)
    elif len(ts) == 2 and all(G.count(t) <= 4096 for t in ts):
        pair_ops(res, ts[0], ts[1], sorted(G.gamma(ts[0])), sorted(G.gamma(ts[1])), "")
    else:
        res.inconc("replay needs the shard (re-run the check)")
