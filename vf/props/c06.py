"""C06 — structurally equal expressions are one object; different ones never merge."""
from __future__ import annotations

import itertools
import random
import traceback

PID = "C06"
LEVEL = "exploration"
RULE = (
    "Monitor M-new wraps Base.__new__ and Base.make_like (incl. its fast path) and compares, for every call, the "
    "requested (op, args, length, annotations + children's relocatable annotations) with the returned object by "
    "content (type-sensitive, NaN/-0.0 aware, no use of hash()); after each workload slice every live AST in the "
    "hash-cons table is grouped by a structural key (class, op, per-argument object identity or typed literal, "
    "length, ordered annotation contents) and a group with two objects is a violation.  Workloads: annotation "
    "payload pairs/triples whose Python hashes collide (-1/-2, 0/2^61-1, 2^61/1, 1/1.0/True, -0.0/0.0, nested "
    "tuples) on built-in and user annotation classes, on leaves and inner nodes; the same structures built in "
    "different orders and through different rewrites; literal arguments differing only in type; all AST routes of "
    "the C05 workload.  Non-trivial case: a monitored constructor call; distinct = distinct (op, arg keys, length, "
    "annotation contents) request."
)
ASSUMPTIONS = ["two annotations are 'identical' when they are the same object, == by their class, or equal in contents"]


def floors(tier):
    return {"mon_new_calls": 20000, "mon_fast_path_calls": 500, "table_scans": 3, "collision_pairs": 200}


def plan(tier, seed):
    q = tier == "quick"
    S = [{"kind": "collide", "stream": i} for i in range(2)]
    S += [{"kind": "routes", "stream": i, "n": 500 if q else 6000} for i in range(6 if q else 16)]
    S += [{"kind": "orders", "stream": i, "n": 300 if q else 3000} for i in range(2 if q else 8)]
    return S


def payload_groups():
    from fractions import Fraction

    """groups of values whose Python hash() collide although the values differ"""
    M = (1 << 61) - 1
    return [
        [-1, -2],
        [0, M, 2 * M, -M],
        [1, M + 1, 1 << 61 | 0 if False else (1 << 61)],
        [1, 1.0, True],
        [0.0, -0.0, 0, False],
        [(1, -1), (1, -2)],
        [("a", -1), ("a", -2)],
        [(-1, (-2, -1)), (-2, (-1, -1)), (-1, (-1, -2))],
        [2**64, 2**64 + M, 8],
        [float("nan"), float("inf"), 314159],
        ["", 0],
        [-(1 << 61), -1 - ((1 << 61) - 1 - 1)],
        # values of different types next to small integers (claripy serialises arguments itself: markers for
        # None/True/False, length-prefixed integers, ...)
        [None, 15, 0x0F00, "\x0f"],
        [True, 31, 1, "\x1f"],
        [False, 46, 0, "\x2e"],
        [None, True, False, 0, 1, 2, 14, 15, 16, 30, 31, 32, 45, 46, 47, 255, 256, 3840, 7936, 11776],
        [b"\x0f", "\x0f", 15, None],
        # containers as annotation fields (their contents collide under hash() the same way)
        [[-1], [-2]],
        [[1, [-1]], [1, [-2]], [1, (-1,)]],
        [{"k": -1}, {"k": -2}, {"k": -1, "j": 0}],
        [frozenset({-1}), frozenset({-2})],
        [{-1}, {-2}],
        [Fraction(-1), Fraction(-2), -1],
    ]


def _freeze(v):
    """a hashable stand-in for containers (what a user's __hash__ typically does: hash(tuple(self.items)))"""
    if isinstance(v, (list, tuple)):
        return tuple(_freeze(x) for x in v)
    if isinstance(v, dict):
        return tuple(sorted((repr(k), _freeze(x)) for k, x in v.items()))
    if isinstance(v, (set, frozenset)):
        return frozenset(_freeze(x) for x in v)
    return v


def run_shard(spec, res):
    import claripy

    from vf.gen import astwork
    from vf.gen import build as bvb
    from vf.gen import exprgen as G
    from vf.mon import newmon

    rng = random.Random(f"{spec['seed']}:{PID}:{spec['kind']}:{spec.get('stream')}")
    newmon.install()
    keep = []
    k = spec["kind"]

    def flush(label):
        for p in newmon.problems:
            res.violation({"kind": "hashcons", "where": label, **p})
        del newmon.problems[:]
        newmon.scan_table(res, label)

    if k == "collide":
        class U(claripy.Annotation):
            eliminatable = False
            relocatable = False

            def __init__(self, v):
                self.v = v

            def __hash__(self):
                return hash(_freeze(self.v))

            def __eq__(self, o):
                return type(o) is U and type(o.v) is type(self.v) and repr(o.v) == repr(self.v)

        class UR(U):
            relocatable = True

        class UPlain(claripy.Annotation):
            """no __eq__/__hash__: identity semantics"""

            def __init__(self, v):
                self.v = v

        SIA = claripy.annotation.StridedIntervalAnnotation
        RA = claripy.annotation.RegionAnnotation
        x8, y8 = claripy.BVS("x", 8, explicit_name=True), claripy.BVS("y", 8, explicit_name=True)
        b = claripy.BoolS("p", explicit_name=True)
        hosts = [x8, y8, x8 + y8, x8 & 3, claripy.BVV(5, 8), b, claripy.And(b, x8 == 1), claripy.FPS("f", claripy.FSORT_FLOAT, explicit_name=True), claripy.StringS("s", explicit_name=True), claripy.If(b, x8, y8)]
        makers = [
            lambda v: U(v),
            lambda v: UR(v),
            lambda v: UPlain(v),
            lambda v: SIA(1, v, 9) if isinstance(v, int) or v is None else SIA(1, 0, 9),
            lambda v: SIA(v, 0, 9) if isinstance(v, int) or v is None else SIA(1, 0, 9),
            lambda v: RA("r", v) if isinstance(v, int) and not isinstance(v, bool) and v >= 0 else RA(str(v), 0),
        ]
        groups = payload_groups()
        # adversarial payloads computed from the serialiser itself: for a value v, the string / integer whose own
        # bytes are the bytes v is written as (with and without a leading kind byte)
        ser = getattr(claripy.ast.Base, "_arg_serialize", None)
        if ser is not None:
            for v in [None, True, False, 0, 1, 15, -1, 255, 256, 1.5, -0.0, "a", "", (1, 2), ("a", None)]:
                try:
                    raw = ser(v)
                except Exception:  # noqa: BLE001
                    continue
                cands = []
                for chunk in (raw, raw[1:], raw[4:], raw[5:]):
                    if not chunk:
                        continue
                    try:
                        cands.append(chunk.decode("utf-8"))
                    except UnicodeDecodeError:
                        cands.append(chunk.decode("latin-1"))
                    cands.append(int.from_bytes(chunk, "little", signed=True))
                grp = [v] + [c for c in cands if not (type(c) is type(v) and c == v)]
                groups.append(grp)
                res.count("serialiser_derived_groups")
        for grp in groups:
            for mk in makers:
                for h in hosts:
                    objs = []
                    for v in grp:
                        try:
                            a = h.annotate(mk(v))
                            a2 = h.annotate(mk(v))
                        except Exception as e:  # noqa: BLE001
                            res.count("annotate_raised:" + type(e).__name__)
                            continue
                        objs.append((v, a, a2))
                        keep += [a, a2]
                        res.case(["collide", repr(type(mk(v)).__name__), repr(v), h.op], True)
                    for (v1, a1, _), (v2, a2, _) in itertools.combinations(objs, 2):
                        res.count("collision_pairs")
                        k1, k2 = newmon.ckey(a1.annotations[0]), newmon.ckey(a2.annotations[0])
                        if k1 != k2 and a1 is a2:
                            res.violation({"kind": "hashcons", "what": "different-annotation-contents-same-object", "node": repr(a1)[:200], "observed": [repr(v1), repr(v2)], "annotations": repr(a1.annotations)})
                        # further operations on the two must stay distinct too
                        if isinstance(a1, claripy.ast.BV):
                            o1, o2 = a1 + 1, a2 + 1
                            keep += [o1, o2]
                            if k1 != k2 and o1 is o2 and type(mk(v1)).__name__ != "UPlain":
                                res.violation({"kind": "hashcons", "what": "different-annotation-contents-same-object-after-op", "node": repr(o1)[:200], "observed": [repr(v1), repr(v2)]})
                    for v, a, a2 in objs:
                        # same request twice -> same object (for annotation classes with value equality)
                        ann = a.annotations[0] if a.annotations else None
                        if ann is not None and type(ann).__eq__ is not object.__eq__ and a is not a2:
                            res.violation({"kind": "hashcons", "what": "same-request-two-objects", "node": repr(a)[:200], "observed": repr(v)})
        # the order of the annotations is part of an expression (get_annotation returns the first of a kind, the VSA
        # backend applies them in sequence)
        for h in hosts:
            for mk1, mk2 in ((U, U), (U, UR), (UR, UR), (lambda v: SIA(1, 0, v), lambda v: SIA(1, 0, v))):
                try:
                    t1, t2 = mk1(1), mk2(2)
                    ab = h.annotate(t1, t2)
                    ba = h.annotate(t2, t1)
                    ab2 = h.annotate(t1).annotate(t2)
                    ins = h.annotate(t1).insert_annotation(t2) if hasattr(h, "insert_annotation") else ba
                except Exception as e:  # noqa: BLE001
                    res.count("annotate_raised:" + type(e).__name__)
                    continue
                keep += [ab, ba, ab2, ins]
                res.case(["annotation-order", h.op, type(t1).__name__, type(t2).__name__], True)
                res.count("annotation_order_pairs")
                k_ab = [newmon.ckey(x) for x in ab.annotations]
                k_ba = [newmon.ckey(x) for x in ba.annotations]
                if ab is ba or k_ab == k_ba or k_ab != [newmon.ckey(t1), newmon.ckey(t2)] or k_ba != [newmon.ckey(t2), newmon.ckey(t1)]:
                    res.violation({"kind": "hashcons", "what": "annotation-order-not-kept-apart", "node": repr(h)[:100], "observed": [repr(ab.annotations), repr(ba.annotations), ab is ba]})
                elif [newmon.ckey(x) for x in ins.annotations] != [newmon.ckey(t2), newmon.ckey(t1)]:
                    res.violation({"kind": "hashcons", "what": "annotation-order-not-kept-apart", "node": repr(h)[:100], "observed": ["insert_annotation", repr(ins.annotations)]})
        flush("collide")
        # literal arguments differing only in type / sign / size
        pairs = [
            (lambda: claripy.BVV(1, 8), lambda: claripy.BVV(1, 9)),
            (lambda: claripy.BVV(0, 1), lambda: claripy.BVV(0, 8)),
            (lambda: claripy.FPV(0.0, claripy.FSORT_DOUBLE), lambda: claripy.FPV(-0.0, claripy.FSORT_DOUBLE)),
            (lambda: claripy.FPV(1.0, claripy.FSORT_FLOAT), lambda: claripy.FPV(1.0, claripy.FSORT_DOUBLE)),
            (lambda: claripy.FPV(float("nan"), claripy.FSORT_DOUBLE), lambda: claripy.FPV(float("inf"), claripy.FSORT_DOUBLE)),
            (lambda: claripy.BoolV(True), lambda: claripy.BVV(1, 1)),
            (lambda: claripy.StringV("1"), lambda: claripy.BVS("1", 8, explicit_name=True)),
            (lambda: claripy.StringV(""), lambda: claripy.StringV("\x00")),
            (lambda: claripy.ZeroExt(1, x8), lambda: claripy.SignExt(1, x8)),
            (lambda: claripy.Extract(1, 0, x8), lambda: claripy.Extract(1, 1, x8)),
            (lambda: claripy.Extract(7, 1, x8), lambda: claripy.Extract(7, 0, claripy.ZeroExt(1, x8))),
            (lambda: claripy.BVS("x", 8, explicit_name=True), lambda: claripy.BVS("x", 16, explicit_name=True)),
            (lambda: claripy.BVS("ab", 8, explicit_name=True), lambda: claripy.BoolS("ab", explicit_name=True)),
            (lambda: claripy.Concat(x8, y8), lambda: claripy.Concat(y8, x8)),
            (lambda: x8 - y8, lambda: y8 - x8),
        ]
        # the empty interval BVV(None, w) next to every small constant, both build orders
        for w_ in (8, 16):
            esi = claripy.ESI(w_)
            keep.append(esi)
            for v in range(0, 300):
                c_ = claripy.BVV(v, w_)
                res.case(["literal-pair", "ESI", v, w_], True)
                if c_ is esi or c_.args[0] != v % (1 << w_):
                    res.violation({"kind": "hashcons", "what": "different-requests-same-object", "node": repr(c_), "observed": [repr(esi), f"BVV({v}, {w_})"]})
        for v in range(300, 340):
            c_ = claripy.BVV(v, 24)
            keep.append(c_)
        esi24 = claripy.ESI(24)
        keep.append(esi24)
        if esi24.args[0] is not None:
            res.violation({"kind": "hashcons", "what": "different-requests-same-object", "node": repr(esi24), "observed": ["ESI(24)", repr(esi24.args)]})
        for v in (15, 31, 46, 3840):
            for first in (0, 1):
                wv = 40 + v % 7 + first
                a_ = (claripy.ESI(wv), claripy.BVV(v, wv)) if first else (claripy.BVV(v, wv), claripy.ESI(wv))[::-1]
                keep += list(a_)
                if a_[0] is a_[1]:
                    res.violation({"kind": "hashcons", "what": "different-requests-same-object", "node": repr(a_[0]), "observed": [f"ESI({wv})", f"BVV({v}, {wv})"]})
        # a constant built with annotations next to the plain constant (both build orders; claripy keeps a cache of
        # constants beside the hash-cons table)
        for v, w_, first in ((5, 8, "annotated"), (6, 8, "plain"), (0, 64, "annotated"), (2**64 - 1, 64, "plain")):
            mk_a = lambda: claripy.BVV(v, w_, annotations=(U(("const", v)),))  # noqa: E731
            mk_p = lambda: claripy.BVV(v, w_)  # noqa: E731
            objs = (mk_a(), mk_p()) if first == "annotated" else (mk_p(), mk_a())[::-1]
            a_, p_ = objs
            keep += [a_, p_]
            res.case(["literal-pair", "annotated-constant", v, w_, first], True)
            if a_ is p_ or p_.annotations or not a_.annotations or mk_p() is not p_:
                res.violation({"kind": "hashcons", "what": "different-requests-same-object", "node": repr(p_), "observed": [f"BVV({v}, {w_}, annotations=...)", f"BVV({v}, {w_})", repr(p_.annotations), first + " first"]})
        for f1, f2 in pairs:
            a1, a1b, a2 = f1(), f1(), f2()
            keep += [a1, a2]
            res.case(["literal-pair", repr(a1), repr(a2)], True)
            if a1 is not a1b and not (a1.op == "FPV" and a1.args[0] != a1.args[0]):
                res.violation({"kind": "hashcons", "what": "same-request-two-objects", "node": repr(a1)})
            if a1 is a2:
                res.violation({"kind": "hashcons", "what": "different-requests-same-object", "node": repr(a1), "observed": [repr(a1), repr(a2)]})
        flush("literals")
    elif k == "routes":
        n = 0
        for route, a, d in astwork.routes(rng, spec["n"]):
            keep.append(a)
            n += 1
            res.case(["route", route, a.hash()], a.depth > 1)
            if n % 400 == 0:
                flush(route)
        flush("routes-end")
    elif k == "orders":
        # the same structure built in different orders / through different rewrites must be one object
        for i in range(spec["n"]):
            w = rng.choice([1, 4, 8, 32])
            g = G.Gen(rng, nvars=2, widths=[w], surface=False)
            d = g.any(rng.choice([2, 3]))
            try:
                a1 = bvb.build(d)
                junk = [bvb.build(g.any(2)) for _ in range(3)]  # interleave other constructions
                a2 = bvb.build(d)
                a3 = astwork._apply(d, [bvb.build(x) if isinstance(x, list) else x for x in d[1:]]) if d[0] not in ("bvs", "bvv", "bools", "boolv") else a1
            except (claripy.errors.ClaripyError, ValueError):
                continue
            keep += [a1, a2, a3, *junk]
            res.case(["orders", d], True)
            if a1 is not a2 or a1 is not a3:
                res.violation({"kind": "hashcons", "what": "same-construction-two-objects", "case": d, "observed": [a1.hash(), a2.hash(), a3.hash()]})
            if i % 300 == 299:
                flush("orders")
        flush("orders-end")
    res.count("mon_new_calls", newmon.events["new"])
    res.count("mon_make_like_calls", newmon.events["make_like"])
    res.count("mon_fast_path_calls", newmon.events["fast_path"])
    res.count("mon_folded", newmon.events["folded"])


def replay(w, res):
    res.inconc("C06 replay: re-run the shard (witnesses name live objects)")
