"""C20 — solvers used from several threads answer as if used alone."""
from __future__ import annotations

import random

PID = "C20"
LEVEL = "exploration"
STRICT_WORKER_DEATH = True  # a crash of the worker is an observation about this property
RULE = (
    "a case is one solver history (C11/C12 step alphabet incl. branch, queries with extra constraints, is_true / "
    "is_false) run by one of 2..16 real threads that start together on a barrier, each thread on its own solver "
    "objects (Solver, SolverCacheless, SolverComposite, SolverReplacement, SolverHybrid; reuse_z3_solver off and on) "
    "while the expressions are shared (same variable names and hash-consed ASTs in all threads); "
    "sys.setswitchinterval in {1e-6, 1e-4, 5e-3} and, in some runs, yield injection (sys.monitoring LINE callback on "
    "backend.py, backend_z3.py and ast/base.py calling time.sleep(0) with probability p).  Every thread only "
    "records (step, outcome).  Oracles, applied afterwards in the main thread: (1) every recorded answer is judged "
    "by the stateless reference (exact model sets by enumeration, <= 13 variable bits) exactly as in C11; (2) every "
    "deterministic answer (satisfiable, min, max, solution, is_true, is_false, complete eval/batch_eval result sets, "
    "raised error class) equals the answer the same history gave when run alone in the main thread before the "
    "threads started; (3) passive guard monitor at every exit of the Z3 guard (collector disabled, count >= 1) and "
    "guard state restored at quiescence; (4) the process survives (faulthandler; a dead worker is a violation).  "
    "Evidence: maximum number of threads simultaneously inside Z3 calls, guard exits, yield injections.  "
    "Non-trivial: the history has an add and a judged query and ran while at least one other thread was alive; "
    "distinct by (configuration, history) hash."
    " Session 4: fresh-symbol round (same base names in every thread, symbols handed to the neighbour, backends asked to drop caches half-way). In oracle (2) a min/max answer is compared as the n-bit pattern it stands for (C11's criterion): which of claripy's routes reports a signed optimum (-8 from the search, 8 from a shortcut or cached models) depends on the models Z3 returned, alone as well as among threads."
)
ASSUMPTIONS = [
    "a finite sample of real schedules (the interleavings are chosen by the OS scheduler under the listed switch intervals and yield injection); C19 covers the guard exhaustively",
    "same scoping as C11 for unsatisfiable stores and variable-free expressions",
]
TECHNIQUE = "runtime monitoring: real threads under switch-interval sweep and yield injection; recorded per-thread histories judged offline against a reference and against the single-thread run"

CLASSES = ["Solver", "SolverCacheless", "SolverComposite", "SolverReplacement", "SolverHybrid"]


def floors(tier):
    q = tier == "quick"
    return {"answers_judged": 4000 if q else 80000, "threads_run": 60 if q else 800, "compared_with_alone": 2000 if q else 40000, "runs_with_overlap": 3 if q else 20, "guard_exits": 3000 if q else 50000}


def plan(tier, seed):
    q = tier == "quick"
    S = []
    i = 0
    for threads in (2, 4, 8, 16):
        for reuse in (0, 1):
            S.append({"kind": "threads", "threads": threads, "reuse": reuse, "stream": i, "rounds": (10 if q else 130), "inject": (i % 2 == 1), "env": {"REUSE_Z3_SOLVER": str(reuse)}})
            i += 1
    return S


def _det(st, outcome):
    """the part of an outcome that must not depend on the schedule, or None"""
    if outcome is None:
        return None
    kind = outcome[0]
    if kind != "ok":
        return (kind,)
    op, val = st["op"], outcome[1]
    if op in ("min", "max") and isinstance(val, int) and not isinstance(val, bool):
        # an optimum is an n-bit pattern (C11): claripy reports the same signed optimum as -8 from the backend's search
        # and as 8 from a single-solution shortcut, a concrete operand or cached models, and which of these routes
        # answers depends on the models Z3 happened to return - in one thread as well
        from vf.ref import bvsem

        return ("ok", val & ((1 << bvsem.width(st["e"])) - 1))
    if op in ("satisfiable", "min", "max", "solution", "is_true", "is_false"):
        return ("ok", val)
    if op == "eval":
        return ("ok", tuple(sorted(map(repr, val)))) if len(val) < st["n"] else ("ok-incomplete", len(val))
    if op == "batch_eval":
        return ("ok", tuple(sorted(map(repr, val)))) if len(val) < st["n"] else ("ok-incomplete", len(val))
    return ("ok",)


def run_shard(spec, res):
    import gc
    import sys
    import threading
    import time

    import claripy
    import claripy.backends.backend_z3 as bz3

    from vf.core.result import Result
    from vf.gen import histories as H
    from vf.mon import api

    rng = random.Random(f"{spec['seed']}:{PID}:{spec['threads']}:{spec['reuse']}:{spec['stream']}")
    T = spec["threads"]
    assert claripy.backends.z3.reuse_z3_solver == (spec["reuse"] == 1)

    # ---- passive guard monitor
    events = {"exits": 0, "bad": [], "max_active": 0}
    orig_exit = bz3._exit_z3

    def checked_exit():
        with bz3._gc_lock:
            events["exits"] += 1
            if bz3._active_z3_calls > events["max_active"]:
                events["max_active"] = bz3._active_z3_calls
            if gc.isenabled() or bz3._active_z3_calls < 1:
                events["bad"].append((gc.isenabled(), bz3._active_z3_calls))
        orig_exit()

    # ---- yield injection
    inj = {"n": 0}
    tool = None
    if spec.get("inject"):
        mon = sys.monitoring
        tool = 3
        mon.use_tool_id(tool, "vf-yield")
        tl = threading.local()

        def on_line(code, lineno):
            r = getattr(tl, "r", None)
            if r is None:
                r = tl.r = random.Random(threading.get_ident())
            if r.random() < 0.02:
                inj["n"] += 1
                time.sleep(0)

        mon.register_callback(tool, mon.events.LINE, on_line)
        import claripy.ast.base as cab
        import claripy.backends.backend as cbb

        files = {bz3.__file__, cbb.__file__, cab.__file__}

        def codes_of(mod):
            out = []
            for v in vars(mod).values():
                for f in [v] + (list(vars(v).values()) if isinstance(v, type) else []):
                    c = getattr(f, "__code__", None) or getattr(getattr(f, "__func__", None), "__code__", None)
                    if c is not None and c.co_filename in files:
                        out.append(c)
            return out

        for m in (bz3, cbb, cab):
            for c in codes_of(m):
                mon.set_local_events(tool, c, mon.events.LINE)

    old_si = sys.getswitchinterval()
    try:
        for rnd in range(spec["rounds"]):
            cls_name = CLASSES[(rnd + spec["stream"]) % len(CLASSES)]
            cls = getattr(claripy, cls_name)
            cfg = {"cls": cls_name, "reuse": spec["reuse"], "threads": T, "round": rnd}
            # one alphabet for all threads: the expressions are shared
            al = H.Alphabet(rng, allow_div=False, nbools=0)
            hists = []
            for t in range(T):
                _, steps = H.history(rng, length=rng.choice([8, 12, 20]), al=al, p_branch=0.05)
                hists.append(steps)

            def run_history(steps, keep):
                r = api.Run(Result(PID), al.vars, cls, PID, mode="none", cfg=cfg, keep=keep)
                for st in steps:
                    if st["s"] >= len(r.live):
                        continue
                    r.step(st)
                return r.full_log

            # ---- alone, in the main thread
            alone = []
            for steps in hists:
                alone.append(run_history(steps, []))
            # ---- together
            bz3._exit_z3 = checked_exit
            sys.setswitchinterval(rng.choice([1e-6, 1e-4, 5e-3]))
            gc0 = gc.isenabled()
            logs = [None] * T
            errs = []
            barrier = threading.Barrier(T)
            alive = [0]

            def work(t):
                try:
                    barrier.wait()
                    alive[0] += 1
                    logs[t] = run_history(hists[t], [])
                except BaseException as e:  # noqa: BLE001
                    errs.append((t, repr(e)[:300]))
                finally:
                    alive[0] -= 1

            ths = [threading.Thread(target=work, args=(t,)) for t in range(T)]
            for th in ths:
                th.start()
            for th in ths:
                th.join(timeout=900)
            bz3._exit_z3 = orig_exit
            sys.setswitchinterval(old_si)
            if any(th.is_alive() for th in ths):
                res.inconc("a thread did not finish within its watchdog")
                return
            res.count("rounds")
            if events["max_active"] >= 2:
                res.count("runs_with_overlap")
            if gc.isenabled() != gc0 or bz3._active_z3_calls != 0:
                res.violation({"kind": "threads", "mon": "M-gcinv", "what": "guard state after all threads returned", "collector": gc.isenabled(), "counter": bz3._active_z3_calls, "config": cfg})
            for t, e in errs:
                res.violation({"kind": "threads", "mon": "M-api", "what": "thread-raised", "observed": e, "config": cfg, "thread": t})
            # ---- offline oracles
            for t in range(T):
                if logs[t] is None:
                    continue
                res.count("threads_run")
                run = api.judge_log(res, al.vars, logs[t], PID, dict(cfg, thread=t))
                nontrivial = any(st["op"] == "add" for st, _ in logs[t]) and any(st["op"] in ("eval", "min", "max", "satisfiable", "solution", "batch_eval") for st, _ in logs[t])
                res.case([cfg["cls"], cfg["reuse"], hists[t]], nontrivial and T > 1, sample={"config": cfg, "steps": hists[t][:5]})
                if run.failed:
                    continue
                for i, ((st, oc), (st0, oa)) in enumerate(zip(logs[t], alone[t])):
                    dc, da = _det(st, oc), _det(st0, oa)
                    if dc is None or da is None or dc[0] == "ok-incomplete" or da[0] == "ok-incomplete":
                        continue
                    res.count("compared_with_alone")
                    if dc != da:
                        res.violation({"kind": "threads", "mon": "M-api", "what": "answer-differs-from-single-thread-run", "step": st, "observed": list(map(repr, dc)), "expected": list(map(repr, da)), "config": dict(cfg, thread=t), "history": [[j, s_["s"], s_, api._short(o_)] for j, (s_, o_) in enumerate(logs[t][: i + 1])][-30:]})
                        break
            fresh_round(res, T, rng, cfg, cls)
        res.count("guard_exits", events["exits"])
        res.setadd("max_concurrent_z3_calls", events["max_active"])
        res.count("yield_injections", inj["n"])
        if events["bad"]:
            res.violation({"kind": "threads", "mon": "M-gcinv", "what": "collector enabled or count < 1 at the end of a call", "observed": events["bad"][:5], "threads": T})
    finally:
        bz3._exit_z3 = orig_exit
        sys.setswitchinterval(old_si)
        if tool is not None:
            mon = sys.monitoring
            mon.register_callback(tool, mon.events.LINE, None)
            mon.free_tool_id(tool)


def fresh_round(res, T, rng, cfg, cls):
    """every thread makes fresh symbols of the same base name (no explicit names), hands one to its neighbour, and
    solves over its own and the neighbour's symbol; half-way one thread asks the backends to drop their caches.  What each
    thread must see is fixed by construction (it is what the same steps give in one thread): the symbols are different
    variables, the store is satisfiable and the sum is the sum of the constants."""
    import threading

    import claripy

    w = 16
    barrier = threading.Barrier(T)
    published = [None] * T
    out = [None] * T
    errs = []
    consts = [[rng.randrange(1, 1000) for _ in range(3)] for _ in range(T)]
    downsizer = rng.randrange(T)

    def work(t):
        try:
            barrier.wait()
            mine = [claripy.BVS("idx", w) for _ in range(2)]
            published[t] = mine[0]
            barrier.wait()
            peer = published[(t + 1) % T]
            s = cls()
            s.add([mine[0] == consts[t][0], mine[1] == consts[t][1]])
            first = (s.satisfiable(), tuple(s.eval(mine[0] + mine[1], 2)))
            barrier.wait()
            if t == downsizer:
                claripy.backends.z3.downsize()
                claripy.backends.concrete.downsize()
            barrier.wait()
            s.add([peer != consts[t][2], mine[1] != peer])
            e = mine[0] + mine[1]
            out[t] = {"first": first, "sat": s.satisfiable(), "sum": tuple(s.eval(e, 2)), "nvars": len((mine[0] + mine[1] + peer).variables), "distinct": s.satisfiable(extra_constraints=[mine[0] != peer]), "names": sorted(x.args[0] for x in (*mine, peer))}
        except BaseException as e:  # noqa: BLE001
            errs.append((t, repr(e)[:300]))
            try:
                barrier.abort()
            except Exception:  # noqa: BLE001
                pass

    ths = [threading.Thread(target=work, args=(t,)) for t in range(T)]
    for th in ths:
        th.start()
    for th in ths:
        th.join(timeout=300)
    if any(th.is_alive() for th in ths):
        res.inconc("a thread of the fresh-symbol round did not finish within its watchdog")
        return
    res.count("fresh_symbol_rounds")
    for t, e in errs:
        if "BrokenBarrierError" in e:
            continue
        res.violation({"kind": "threads", "mon": "M-api", "what": "thread-raised", "observed": e, "config": dict(cfg, scenario="fresh-symbols"), "thread": t})
    for t in range(T):
        o = out[t]
        if o is None:
            continue
        res.count("fresh_symbol_threads_judged")
        res.case(["fresh", cfg["cls"], cfg["reuse"], T, t, consts[t]], T > 1)
        want_sum = ((consts[t][0] + consts[t][1]) & 0xFFFF,)
        exp = {"first": (True, want_sum), "sat": True, "sum": want_sum, "nvars": 3, "distinct": True}
        got = {k: o[k] for k in exp}
        if got != exp:
            res.violation({"kind": "threads", "mon": "M-api", "what": "answer-differs-from-single-thread-run", "scenario": "fresh-symbols", "observed": {k: repr(v) for k, v in got.items()}, "expected": {k: repr(v) for k, v in exp.items()}, "names": o["names"], "config": dict(cfg, thread=t)})


def replay(w, res):
    res.inconc("C20 witnesses depend on the OS schedule; re-run the check (the history in the witness can be run alone with vf/core/shrink.py)")
