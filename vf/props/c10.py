"""C10 — cheap truth checks never claim a truth value that does not hold."""
from __future__ import annotations

import random
import traceback

PID = "C10"
LEVEL = "exploration"
RULE = (
    "Monitor M-truth wraps is_true/is_false of the concrete, Z3 and VSA backends (class level, so the early-bound "
    "claripy.is_true / Bool.is_true call sites are covered) and of every solver instance used; every `True` it "
    "returns is one case, judged by Z3 (private context): is_true => the expression is valid, is_false => it is "
    "unsatisfiable - relative to the solver's constraints and the extra constraints for frontends, and relative to the "
    "declared strided intervals for VSA-annotated variables.  Workloads: (direct) Boolean rule templates, random "
    "Boolean trees and tautology/contradiction shapes asked through claripy.is_true/is_false, the Bool methods and "
    "each backend, twice (second answer from the truth caches) and again after downsize(); (frontend) all eight "
    "solver classes after random add/query histories, asked about their own constraints, weakened/negated "
    "constraints and random expressions, with and without extra constraints; (passive) the monitor stays on while "
    "templates are built and simplified.  Non-trivial: the judged expression is not a literal BoolV; distinct by "
    "(site, expression hash, constraint hashes).  `False` answers are never judged."
    " Session 4: truth queries on solvers derived from the judged one (blank_copy, merge, split, combine)."
)
ASSUMPTIONS = ["Z3 decides validity of the judged Bool expressions within the timeout (unknown answers are counted, not judged)"]


def floors(tier):
    return {"true_events_judged": 3000 if tier == "quick" else 30000, "true_events:BackendZ3.is_true": 50, "true_events:BackendZ3.is_false": 50, "frontend_true_events": 100}


def plan(tier, seed):
    q = tier == "quick"
    S = [{"kind": "direct", "stream": i, "n": 600 if q else 8000} for i in range(4 if q else 12)]
    S += [{"kind": "tmpl", "stream": i, "n": 3 if q else 30} for i in range(2 if q else 8)]
    S += [{"kind": "frontend", "stream": i, "n": 60 if q else 700} for i in range(4 if q else 12)]
    S += [{"kind": "vsa", "stream": i, "n": 600 if q else 6000} for i in range(2 if q else 6)]
    S += [{"kind": "fpfront", "stream": i} for i in range(1 if q else 3)]
    return S


def shapes(rng, g, w):
    """Boolean descriptors likely to be decided by the cheap checks, correctly or not"""
    from vf.gen import exprgen as G

    x, y = G.bvs("a", w), G.bvs("b", w)
    m = (1 << w) - 1
    c = lambda: ["bvv", rng.choice(G.consts(w, rng, 1)), w]  # noqa: E731
    p, q = ["bools", "p"], ["bools", "q"]
    sub = g.bv(w, 1)
    return [
        ["eq", sub, sub], ["ne", sub, sub], ["ule", x, ["bvv", m, w]], ["uge", x, ["bvv", 0, w]], ["ult", x, ["bvv", 0, w]], ["ugt", x, ["bvv", m, w]],
        ["sle", x, ["bvv", m >> 1, w]], ["sge", x, ["bvv", (m >> 1) + 1 & m, w]], ["slt", x, ["bvv", (m >> 1) + 1 & m, w]],
        ["eq", ["and", x, ["bvv", 0, w]], ["bvv", 0, w]], ["eq", ["xor", x, x], ["bvv", 0, w]], ["eq", ["sub", x, x], c()], ["ule", ["and", x, c()], c()],
        ["band", p, ["bnot", p]], ["bor", p, ["bnot", p]], ["band", ["eq", x, c()], ["eq", x, c()]], ["band", ["eq", x, c()], ["ne", x, c()]],
        ["bor", ["ult", x, y], ["uge", x, y]], ["band", ["ult", x, y], ["ugt", x, y]], ["beq", p, p], ["bne", p, p], ["eq", ["zext", 1, x], ["zext", 1, c()]],
        ["eq", ["concat", c(), x], ["concat", c(), y]], ["ne", ["concat", c(), x], ["concat", c(), x]], ["eq", ["extract", 0, 0, ["shl", x, ["bvv", 1 & m, w]]], ["bvv", 0, 1]],
        ["ule", ["lshr", x, ["bvv", 1 & m, w]], ["bvv", m >> 1, w]], ["eq", ["mul", x, ["bvv", 0, w]], ["bvv", 0, w]], ["ite", p, ["boolv", True], ["boolv", True]],
        ["ite", p, q, q], ["eq", c(), c()], ["ult", c(), c()], ["sle", c(), c()], ["bnot", ["eq", c(), c()]], ["eq", ["ite", p, c(), c()], c()],
        ["ne", ["ite", p, ["bvv", 1 & m, w], ["bvv", 0, w]], ["bvv", 2 & m, w]], g.boolx(2), g.boolx(3),
    ]


FP_SPECIALS = [0.0, -0.0, 1.0, -1.0, float("inf"), float("-inf"), float("nan"), 2.5]


def fp_frontend_case(cls, rng, keep, res, kval=None, form=None):
    import claripy

    from vf.mon import truth

    sort = rng.choice([claripy.FSORT_FLOAT, claripy.FSORT_DOUBLE])
    f = claripy.FPS("ff" + str(sort.length), sort, explicit_name=True)
    g = claripy.FPS("fg" + str(sort.length), sort, explicit_name=True)
    k = claripy.FPV(rng.choice(FP_SPECIALS) if kval is None else kval, sort)
    s = truth.wrap_frontend(cls())
    forms = [f == k, k == f, claripy.fpLEQ(f, k), claripy.fpIsNaN(f), claripy.fpAbs(f) == claripy.fpAbs(k), claripy.Not(f != k)]
    cons = [rng.choice(forms) if form is None else forms[form]]
    if rng.random() < 0.4:
        cons.append(rng.choice([g == f, claripy.fpLT(g, f), claripy.fpIsInf(g)]))
    s.add(cons)
    if rng.random() < 0.5:
        try:
            s.satisfiable()
            s.eval(f, 2)
        except claripy.errors.ClaripyError:
            pass
    one = claripy.FPV(1.0, sort)
    rm = claripy.fp.RM.default()
    qs = [
        f.raw_to_bv() == k.raw_to_bv(), f.raw_to_bv()[sort.length - 1] == 1, f.raw_to_bv()[sort.length - 1] == 0, claripy.fpLT(claripy.fpDiv(rm, one, f), claripy.FPV(0.0, sort)),
        claripy.fpGT(claripy.fpDiv(rm, one, f), claripy.FPV(0.0, sort)), f == k, f != k, claripy.fpIsNaN(f), claripy.fpIsInf(f), f == claripy.fpNeg(k), claripy.fpNeg(f).raw_to_bv() == claripy.fpNeg(k).raw_to_bv(),
        claripy.fpEQ(f, f), claripy.fpLEQ(f, k), claripy.fpGEQ(f, k), g == f, claripy.fpAbs(f).raw_to_bv() == claripy.fpAbs(k).raw_to_bv(),
        # orderings and their negations, constant on either side (Not(a < b) is not a >= b when one of them is NaN)
        claripy.Not(claripy.fpLT(k, f)), claripy.Not(claripy.fpLEQ(f, k)), claripy.Not(claripy.fpGT(f, k)), claripy.Not(claripy.fpGEQ(k, f)), claripy.fpLT(k, f), claripy.fpGT(k, f),
        claripy.Not(claripy.fpLT(f, g)), claripy.Or(claripy.fpLT(f, k), claripy.fpGEQ(f, k)), claripy.And(claripy.Not(claripy.fpLT(f, k)), claripy.Not(claripy.fpGEQ(f, k))),
    ]
    for e in qs:
        for which in ("is_true", "is_false"):
            for _round in range(2):
                try:
                    getattr(s, which)(e)
                except claripy.errors.ClaripyError as exn:
                    res.count("frontend_raised:" + type(exn).__name__)
    keep += qs + cons
    res.count("frontend_histories")
    res.count("frontend_fp_histories")
    res.count("frontend_class:" + cls.__name__)


def run_shard(spec, res):
    import claripy

    from vf.gen import astwork
    from vf.gen import build as bvb
    from vf.gen import exprgen as G
    from vf.mon import truth

    rng = random.Random(f"{spec['seed']}:{PID}:{spec['kind']}:{spec.get('stream')}")
    tmo = 2000 if spec["tier"] == "quick" else 8000
    truth.install()
    keep = []
    kind = spec["kind"]

    def ask_all(e):
        fns = [claripy.is_true, claripy.is_false, lambda z: z.is_true(), lambda z: z.is_false(), claripy.backends.z3.is_true, claripy.backends.z3.is_false, claripy.backends.concrete.is_true, claripy.backends.concrete.is_false]
        for _round in range(2):
            for f in fns:
                try:
                    f(e)
                except claripy.errors.BackendError:
                    pass
                except claripy.errors.ClaripyError as ex:
                    res.count("ask_raised:" + type(ex).__name__)
        res.count("asked")

    if kind in ("direct", "tmpl"):
        n = 0
        for it in range(spec["n"]):
            w = rng.choice([1, 2, 3, 4, 8, 16, 32, 64])
            g = G.Gen(rng, nvars=2, widths=[w], surface=False)
            ds = shapes(rng, g, w) if kind == "direct" else [d for d in G.templates(rng)]
            if kind == "direct":
                ds = rng.sample(ds, 6)
            for d in ds:
                from vf.ref import bvsem

                if not bvb.well_formed(d) or not bvsem.is_bool(d):
                    continue
                try:
                    e = bvb.build(d)
                except claripy.errors.ClaripyError:
                    continue
                keep.append(e)
                ask_all(e)
                n += 1
                if n % 50 == 0:
                    # downsize clears the conversion and truth caches; ask again afterwards
                    for b in (claripy.backends.z3, claripy.backends.concrete):
                        b.downsize()
                    ask_all(e)
                if n % 200 == 0:
                    truth.judge_events(res, tmo, kind)
                    del keep[:-50]
        truth.judge_events(res, tmo, kind)
    elif kind == "fpfront":
        # every special value x every way of writing the equality, on every frontend that derives facts from constraints
        for cls in (claripy.SolverReplacement, claripy.Solver, claripy.SolverComposite, claripy.SolverCacheless):
            for kval in FP_SPECIALS:
                for form in range(6):
                    try:
                        fp_frontend_case(cls, rng, keep, res, kval=kval, form=form)
                    except claripy.errors.ClaripyError as exn:
                        res.count("frontend_setup_raised:" + type(exn).__name__)
            res.count("frontend_true_events", sum(1 for ev in truth.events if ev[3] is not None))
            truth.judge_events(res, tmo, "frontend")
            del keep[:]
    elif kind == "frontend":
        classes = [claripy.Solver, claripy.SolverCacheless, claripy.SolverComposite, claripy.SolverReplacement, claripy.SolverConcrete, claripy.SolverStrings, claripy.SolverHybrid, claripy.SolverVSA]
        for it in range(spec["n"]):
            cls = classes[it % len(classes)]
            w = rng.choice([4, 8, 32])
            g = G.Gen(rng, nvars=2, widths=[w], surface=False, allow_div=False)
            if it % 5 == 3 and cls not in (claripy.SolverStrings, claripy.SolverConcrete, claripy.SolverVSA, claripy.SolverHybrid):
                # floats: IEEE equality with a constant is not identity (+0.0 == -0.0, NaN != NaN)
                try:
                    fp_frontend_case(cls, rng, keep, res)
                except claripy.errors.ClaripyError as exn:
                    res.count("frontend_setup_raised:" + type(exn).__name__)
                continue
            try:
                s = truth.wrap_frontend(cls())
                cons = []
                for _ in range(rng.choice([0, 1, 2, 3])):
                    c = bvb.build(rng.choice(shapes(rng, g, w)[:20] + [g.boolx(1), g.boolx(2), ["eq", G.bvs("a", w), ["bvv", rng.getrandbits(w), w]], ["ule", G.bvs("a", w), ["bvv", rng.getrandbits(w), w]]]))
                    cons.append(c)
                s.add(cons)
                if rng.random() < 0.5:
                    try:
                        s.satisfiable()
                        s.eval(bvb.build(G.bvs("a", w)), 2)
                    except claripy.errors.ClaripyError:
                        pass
                qs = [bvb.build(d) for d in rng.sample(shapes(rng, g, w), 5)]
                qs += [c for c in cons] + [claripy.Not(c) for c in cons]
                if cons:
                    qs.append(claripy.Or(cons[0], bvb.build(g.boolx(1))))
                    qs.append(claripy.And(*cons))
                for e in qs:
                    extras = [(), (bvb.build(g.boolx(1)),), (bvb.build(["eq", G.bvs("a", w), ["bvv", rng.getrandbits(w), w]]),)]
                    for ex in extras[: rng.choice([1, 2, 3])]:
                        for which in ("is_true", "is_false"):
                            for _round in range(2):
                                try:
                                    getattr(s, which)(e, extra_constraints=ex)
                                except claripy.errors.ClaripyError as exn:
                                    res.count("frontend_raised:" + type(exn).__name__)
                                except Exception as exn:  # noqa: BLE001
                                    res.count("frontend_raised_other:" + type(exn).__name__)
                                    res.setadd("frontend_other_exceptions", f"{cls.__name__}: {exn!r}"[:160])
                if it % 3 == 0 and cls in (claripy.SolverReplacement, claripy.SolverHybrid, claripy.Solver, claripy.SolverComposite):
                    # solvers made from this one: what it has worked out about its own constraints (replacements, bounds,
                    # cached models) must not answer for a solver that does not hold those constraints
                    base_ = s
                    other = cls()
                    other.add([bvb.build(["eq", G.bvs("a", w), ["bvv", rng.getrandbits(w), w]])])
                    derived = []
                    try:
                        derived.append(("blank_copy", base_.blank_copy()))
                        derived.append(("merge", base_.merge([other], [claripy.true(), claripy.true()])[1]))
                        derived += [("split", p_) for p_ in base_.split()[:3]]
                        derived.append(("combine", cls().combine([other])))
                    except claripy.errors.ClaripyError as exn:
                        res.count("frontend_derive_raised:" + type(exn).__name__)
                    for how, ds_ in derived:
                        truth.wrap_frontend(ds_)
                        res.count("frontend_derived_solvers:" + how)
                        for e in qs[:8]:
                            for which in ("is_true", "is_false"):
                                for kw_ in ({}, {"exact": False}) if cls is claripy.SolverHybrid else ({},):
                                    try:
                                        getattr(ds_, which)(e, **kw_)
                                    except claripy.errors.ClaripyError as exn:
                                        res.count("frontend_raised:" + type(exn).__name__)
                                    except Exception as exn:  # noqa: BLE001
                                        res.count("frontend_raised_other:" + type(exn).__name__)
                                        res.setadd("frontend_other_exceptions", f"{cls.__name__}/{how}: {exn!r}"[:160])
                    keep += [d_ for _, d_ in derived] + [other]
                keep += qs + cons
                res.count("frontend_histories")
                res.count("frontend_class:" + cls.__name__)
            except claripy.errors.ClaripyError as exn:
                res.count("frontend_setup_raised:" + type(exn).__name__)
            before = len(truth.events)
            if it % 10 == 9:
                res.count("frontend_true_events", sum(1 for ev in truth.events if ev[3] is not None))
                truth.judge_events(res, tmo, "frontend")
                del keep[:-100]
        res.count("frontend_true_events", sum(1 for ev in truth.events if ev[3] is not None))
        truth.judge_events(res, tmo, "frontend")
    elif kind == "vsa":
        # VSA backend answers about SI-annotated variables
        for it in range(spec["n"]):
            w = rng.choice([3, 4, 8, 16])
            m = (1 << w) - 1
            lb, span = rng.getrandbits(w), rng.getrandbits(w)
            stride = rng.choice([1, 1, 2, 3, 4])
            ub = (lb + (span // stride) * stride) & m
            if lb == ub:
                stride = 0
            x = claripy.SI(name="vx", bits=w, lower_bound=lb, upper_bound=ub, stride=stride, explicit_name=True)
            k = claripy.BVV(rng.choice([0, 1, m, lb, ub, (lb + 1) & m, (ub + 1) & m, rng.getrandbits(w)]), w)
            mk = rng.choice([claripy.ULE, claripy.ULT, claripy.UGE, claripy.UGT, claripy.SLE, claripy.SLT, claripy.SGE, claripy.SGT, lambda a, b: a == b, lambda a, b: a != b])
            e = mk(rng.choice([x, x + 1, x & k, x >> 1, claripy.LShR(x, 1), ~x, x[w - 1 : 1].zero_extend(1)]), k)
            keep.append(e)
            for f in (claripy.backends.vsa.is_true, claripy.backends.vsa.is_false):
                for _ in range(2):
                    try:
                        f(e)
                    except claripy.errors.ClaripyError:
                        res.count("vsa_raised")
            s = truth.wrap_frontend(claripy.SolverVSA())
            try:
                s.is_true(e)
                s.is_false(e)
            except claripy.errors.ClaripyError:
                res.count("vsa_raised")
            res.count("asked")
            if it % 100 == 99:
                truth.judge_events(res, tmo, "vsa")
                del keep[:-50]
        truth.judge_events(res, tmo, "vsa")
    for k, v in truth.counts.items():
        res.count("calls:" + k, v)


def replay(w, res):
    res.inconc("C10 replay: re-run the shard kind named in the witness")
