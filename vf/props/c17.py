"""C17 — a solver stays correct after a backend timeout or interrupt."""
from __future__ import annotations

import random
import traceback

PID = "C17"
LEVEL = "fault_enumeration"
RULE = (
    "fault enumeration: for each random history H (5..15 steps, C11 alphabet) and each query step s that performs "
    "N >= 1 solver checks in a clean run (counted by a wrapper substituted for backend_z3.z3_solver_sat), and for "
    "every k in 1..N (a sample of the positions when N is large, see the end), H is re-run up to s on a fresh solver and the k-th check of step s is made to give up - in two "
    "ways: (a) for real, by setting the Z3 solver's resource limit to 1 around that one check so that Z3 itself "
    "answers unknown, (b) by raising ClaripySolverInterruptError('timeout') from the check.  Monitor: the faulted "
    "call must raise a ClaripyError subclass (returning an answer or raising anything else is a violation); all "
    "later steps of H, on the same solver and on a branch taken right after the fault, are judged by M-api against "
    "the stateless reference.  Classes Solver, SolverCacheless, SolverComposite; reuse_z3_solver off and on.  "
    "Non-trivial: a (history, step, k) triple where the fault was actually delivered; distinct by that triple."
    " Session 4: directed histories with an unsatisfiable group next to a satisfiable one; steps that make more than 8 (quick) / 20 (thorough) checks are faulted at the first three, the last two and a random sample of the other positions."
)
ASSUMPTIONS = ["rlimit=1 makes Z3 give up on every check that needs search; checks Z3 decides during preprocessing cannot be faulted that way and are counted as not delivered"]

CLASSES = ["Solver", "SolverCacheless", "SolverComposite"]


def floors(tier):
    return {"faults_delivered": 300 if tier == "quick" else 6000, "faults_delivered:rlimit": 60, "faults_delivered:raise": 150, "post_fault_answers_judged": 1000, "faulted_op:eval": 20, "faulted_op:batch_eval": 20, "faulted_op:max": 20, "faulted_op:min": 20, "faulted_op:satisfiable": 10, "faulted_op:solution": 10}


def plan(tier, seed):
    q = tier == "quick"
    return [{"kind": "faults", "cls": cls, "stream": i, "n": 14 if q else 220, "env": {"REUSE_Z3_SOLVER": str(i % 2)}} for cls in CLASSES for i in range(4 if q else 8)]


class Injector:
    """substituted for claripy.backends.backend_z3.z3_solver_sat (looked up as a module global at call time)"""

    def __init__(self, bz):
        self.bz = bz
        self.orig = bz.z3_solver_sat
        self.mode = "count"
        self.count = 0
        self.target = None
        self.delivered = False
        self.armed = False
        bz.z3_solver_sat = self

    def __call__(self, solver, extra_constraints, occasion):
        import claripy

        if not self.armed:
            return self.orig(solver, extra_constraints, occasion)
        self.count += 1
        if self.mode == "count" or self.count != self.target or self.delivered:
            return self.orig(solver, extra_constraints, occasion)
        if self.mode == "raise":
            self.delivered = True
            raise claripy.errors.ClaripySolverInterruptError("timeout")
        # real give-up: Z3 itself answers unknown for this one check
        solver.set("rlimit", 1)
        try:
            r = self.orig(solver, extra_constraints, occasion)
        except claripy.errors.ClaripyError:
            self.delivered = True
            raise
        finally:
            solver.set("rlimit", 0)
        return r  # Z3 decided it without search: fault not delivered

    def restore(self):
        self.bz.z3_solver_sat = self.orig


def run_shard(spec, res):
    import claripy
    import claripy.backends.backend_z3 as bz

    from vf.gen import histories as H
    from vf.mon import api

    rng = random.Random(f"{spec['seed']}:{PID}:{spec['cls']}:{spec.get('stream')}")
    cls = getattr(claripy, spec["cls"])
    cfg = {"cls": spec["cls"], "reuse": int(spec["env"]["REUSE_Z3_SOLVER"]), "fault_injected": True}
    inj = Injector(bz)
    keep = []
    try:
        for it in range(spec["n"]):
            al = H.Alphabet(rng, w=rng.choice([3, 4]), nvars=rng.choice([2, 3]), nbools=0)
            _, steps = H.history(rng, length=rng.choice([5, 8, 11, 15]), al=al, maint=True, p_extra=0.25)
            steps = [st for st in steps if st["s"] == 0]
            if it % 3 == 2:
                # a store that is unsatisfiable for a reason only the backend can see, in constraints over one variable,
                # next to satisfiable constraints over another (two groups for a solver that splits by variable): the
                # give-up hits the first check that would have found it
                x_, y_ = al.v(0), al.v(1)
                m_ = (1 << al.w) - 1
                unsat_x = rng.choice([[["eq", ["mul", x_, x_], ["bvv", 2, al.w]]], [["ult", ["or", x_, ["bvv", 4, al.w]], ["bvv", 4, al.w]]], [["ugt", ["mul", x_, ["bvv", 2, al.w]], ["bvv", m_ - 1, al.w]]]])
                steps = [{"op": "add", "s": 0, "cons": unsat_x}, {"op": "add", "s": 0, "cons": [[rng.choice(["ult", "ugt", "ne"]), y_, ["bvv", rng.randrange(1, m_), al.w]]]}]
                steps += [rng.choice([{"op": "satisfiable", "s": 0, "extra": []}, {"op": "eval", "s": 0, "e": y_, "n": 2, "extra": []}, {"op": "max", "s": 0, "e": y_, "signed": False, "extra": []}]), {"op": "satisfiable", "s": 0, "extra": []}, {"op": "eval", "s": 0, "e": y_, "n": 3, "extra": []}, {"op": "satisfiable", "s": 0, "extra": [[rng.choice(["ult", "ne"]), y_, ["bvv", rng.randrange(1, m_), al.w]]]}]
                res.count("directed_unsat_group_histories")
            # clean run: count checks per step
            run = api.Run(res.__class__(PID), al.vars, cls, PID, cfg=cfg, keep=keep)  # throw-away result
            counts = []
            for st in steps:
                inj.mode, inj.count, inj.armed = "count", 0, True
                run.step(st)
                inj.armed = False
                counts.append(inj.count)
            if run.failed:
                # the clean run itself is judged by C11; do not build fault cases on a history that already fails
                res.count("clean_run_failed_skipped")
                continue
            res.count("histories")
            cand = [(i, n) for i, n in enumerate(counts) if n > 0 and steps[i]["op"] not in ("add", "simplify", "downsize", "branch")]
            rng.shuffle(cand)
            for i, n in cand[: 3 if spec["tier"] == "quick" else 6]:
                # every position when the step makes few checks; the first, last and a sample of the middle ones when it
                # makes many (complete enumerations by a solver without caches make one check per value)
                cap = 8 if spec["tier"] == "quick" else 20
                ks = list(range(1, n + 1)) if n <= cap else sorted({1, 2, 3, n - 1, n, *rng.sample(range(4, n - 1), cap - 5)})
                if n > cap:
                    res.count("steps_with_sampled_check_positions")
                for k in ks:
                    for mode in ("raise", "rlimit"):
                        one_fault(res, al, steps, i, k, mode, cls, cfg, inj, keep)
            del keep[:]
    finally:
        inj.restore()


def one_fault(res, al, steps, i, k, mode, cls, cfg, inj, keep):
    import claripy

    from vf.mon import api

    run = api.Run(res, al.vars, cls, PID, cfg=cfg, keep=keep)
    for st in steps[:i]:
        run.step(st)
    if run.failed:
        return
    st = steps[i]
    lv = run.live[0]
    s = lv.solver
    inj.mode, inj.count, inj.target, inj.delivered, inj.armed = mode, 0, k, False, True
    outcome = None
    try:
        extra = tuple(run.b(c) for c in st.get("extra", []))
        op = st["op"]
        if op == "satisfiable":
            outcome = ("returned", s.satisfiable(extra_constraints=extra))
        elif op == "eval":
            outcome = ("returned", s.eval(run.b(st["e"]), st["n"], extra_constraints=extra))
        elif op == "batch_eval":
            outcome = ("returned", s.batch_eval([run.b(e) for e in st["es"]], st["n"], extra_constraints=extra))
        elif op in ("min", "max"):
            outcome = ("returned", getattr(s, op)(run.b(st["e"]), extra_constraints=extra, signed=st["signed"]))
        elif op == "solution":
            outcome = ("returned", s.solution(run.b(st["e"]), run.b(st["v"]) if isinstance(st["v"], list) else st["v"], extra_constraints=extra))
        elif op in ("is_true", "is_false"):
            outcome = ("returned", getattr(s, op)(run.b(st["e"]), extra_constraints=extra))
        else:
            return
    except claripy.errors.UnsatError as e:
        outcome = ("unsat-error", repr(e)[:100])
    except claripy.errors.ClaripyError as e:
        outcome = ("claripy-error", type(e).__name__)
    except Exception as e:  # noqa: BLE001
        outcome = ("other-exception", repr(e)[:200], traceback.format_exc()[-1200:])
    finally:
        inj.armed = False
    if not inj.delivered:
        res.count("faults_not_delivered:" + mode)
        return
    res.count("faults_delivered")
    res.count("faults_delivered:" + mode)
    res.count("faulted_op:" + st["op"])
    res.setadd("faulted_exception_types", str(outcome[1])[:60] if outcome[0] == "claripy-error" else outcome[0])
    res.case([cfg["cls"], cfg["reuse"], steps, i, k, mode], True, sample={"class": cfg["cls"], "faulted_step": st, "check_index": k, "mode": mode, "outcome": list(outcome[:2]), "prefix_len": i})
    if outcome[0] != "claripy-error":
        res.violation({"kind": "fault", "what": "faulted-operation-did-not-raise-a-claripy-error", "config": cfg, "mode": mode, "check_index": k, "step": st, "observed": list(outcome), "prefix": steps[:i]})
        return
    run.log.append([run.clock, 0, {"FAULT": mode, "check": k, "step": st}, list(outcome)])
    # continue the history on the same solver and on a branch taken right after the fault
    try:
        run.step({"op": "branch", "s": 0})
    except Exception:  # noqa: BLE001
        pass
    bidx = len(run.live) - 1  # the branch taken right after the fault (the history may have made copies before)
    before = res.counters.get("answers_judged", 0)
    # the question the backend gave up on is asked again first (same solver, then the branch): nothing the failed
    # attempt left behind may answer it
    for sidx in range(len(run.live)):
        run.step(dict(st, s=sidx))
        if run.failed:
            break
    res.count("faulted_queries_asked_again")
    for st2 in (steps[i + 1 :] if not run.failed else []):
        run.step(st2)
        if bidx >= 1 and st2["op"] not in ("branch",):
            st3 = dict(st2, s=bidx)
            run.step(st3)
        if run.failed:
            break
    # a final fixed probe: complete enumeration and optima of the first variable
    if not run.failed:
        x = al.v(0)
        for sidx in range(len(run.live)):
            for q in ({"op": "eval", "s": sidx, "e": x, "n": 40, "extra": []}, {"op": "max", "s": sidx, "e": x, "signed": False, "extra": []}, {"op": "satisfiable", "s": sidx, "extra": []}, {"op": "batch_eval", "s": sidx, "es": [x, al.v(1 % al.nvars)], "n": 70, "extra": []}):
                run.step(q)
                if run.failed:
                    break
    res.count("post_fault_answers_judged", res.counters.get("answers_judged", 0) - before)


def replay(w, res):
    res.inconc("C17 replay: re-run the shard; the witness records (prefix, faulted step, check index, mode)")
