"""C02 — floating-point expressions follow IEEE-754 in every rounding mode, folded or not."""
from __future__ import annotations

import itertools
import random
import traceback

PID = "C02"
LEVEL = "exploration"
RULE = (
    "cases are FP operation descriptors (constants as IEEE bit patterns from a hostile pool: signed zeros, "
    "subnormals, min/max normal, infinities, NaN, ties, 2^24/2^53/2^63 neighbourhoods) x 5 rounding modes x "
    "{float,double}: every arithmetic op on pool x pool, sqrt/neg/abs, 6 comparisons, isNaN/isInf, fp<->fp, "
    "int<->fp (signed/unsigned, 8/32/64 bits), raw conversions, literals from Python floats, plus the same ops "
    "with symbolic operands and two-level trees.  Non-trivial: at least one FP operator node (not a bare leaf); "
    "distinct by descriptor hash.  Oracle: claripy's Z3 translation of the returned AST vs an independently built "
    "Z3 FPA term; concrete results compared after folding with Z3's own soft-float (SMT '=': NaN=NaN, +0!=-0), "
    "symbolic ones structurally, then by solver, then by sampling over the pool.  SMT-LIB-unspecified results "
    "(fpToIEEEBV(NaN), fp->int of NaN/inf/out-of-range) are excluded by a computed guard."
)
ASSUMPTIONS = [
    "Z3 4.13 FPA rewriter (mpf soft-float) folds numerals exactly per IEEE-754 in all five rounding modes",
    "NaN payloads are not distinguished (SMT-LIB has a single NaN)",
]

RMS = ["RNE", "RNA", "RTZ", "RTP", "RTN"]
ARITH = ["fpadd", "fpsub", "fpmul", "fpdiv"]
CMPS = ["fpeq", "fpneq", "fplt", "fpleq", "fpgt", "fpgeq"]


def floors(tier):
    return {"judged_concrete": 3000, "judged_symbolic": 100}


def plan(tier, seed):
    S = []
    if tier == "quick":
        for srt in "FD":
            for op in ARITH:
                S.append({"kind": "arith", "S": srt, "op": op, "pool": "small"})
            S.append({"kind": "unary_cmp", "S": srt, "pool": "small"})
            S.append({"kind": "conv", "S": srt, "pool": "small"})
        S += [{"kind": "sym", "stream": i, "n": 150} for i in range(4)]
        S += [{"kind": "tree", "stream": i, "n": 300} for i in range(4)]
    else:
        for srt in "FD":
            for op in ARITH:
                for rm in RMS:
                    S.append({"kind": "arith", "S": srt, "op": op, "pool": "full", "rms": [rm]})
            S.append({"kind": "unary_cmp", "S": srt, "pool": "full"})
            S.append({"kind": "conv", "S": srt, "pool": "full"})
        S += [{"kind": "sym", "stream": i, "n": 600} for i in range(8)]
        S += [{"kind": "tree", "stream": i, "n": 3000} for i in range(16)]
    return S


def _pool(spec):
    from vf.gen import fpbuild

    return fpbuild.small_pool_bits(spec["S"]) if spec["pool"] == "small" else fpbuild.pool_bits(spec["S"])


def _int_pool(w):
    m = (1 << w) - 1
    vals = {0, 1, 2, 3, m, m - 1, 1 << (w - 1), (1 << (w - 1)) - 1, (1 << (w - 1)) + 1, 255 & m, 127 & m, 128 & m}
    for k in (24, 25, 53, 54, 62, 63):
        if k < w:
            vals |= {(1 << k) & m, ((1 << k) + 1) & m, ((1 << k) - 1) & m, ((1 << k) + 3) & m, (m - (1 << (w - k - 1))) & m if w - k - 1 >= 0 else 0}
    return sorted(vals)


def _cases(spec, rng):
    from vf.gen import fpbuild

    k = spec["kind"]
    if k == "arith":
        srt = spec["S"]
        pool = _pool(spec)
        for rm in spec.get("rms", RMS):
            for a, b in itertools.product(pool, pool):
                op = spec["op"]
                if rm == "RNE" and (a + b) % 7 == 0:
                    op += rng.choice(["@py", "@norm"])
                yield [op, rm, ["fpv", a, srt], ["fpv", b, srt]]
    elif k == "unary_cmp":
        srt = spec["S"]
        pool = _pool(spec)
        for a in pool:
            A = ["fpv", a, srt]
            yield ["fpneg", A]
            yield ["fpabs", A]
            yield ["fpneg@py", A]
            yield ["fpabs@py", A]
            yield ["fpisnan", A]
            yield ["fpisinf", A]
            for rm in RMS:
                yield ["fpsqrt", rm, A]
            for b in pool:
                for c in CMPS:
                    yield [c, A, ["fpv", b, srt]]
                yield [rng.choice(CMPS) + "@py", A, ["fpv", b, srt]]
    elif k == "conv":
        srt = spec["S"]
        other = "D" if srt == "F" else "F"
        pool = _pool(spec)
        for a in pool:
            A = ["fpv", a, srt]
            yield ["fp2ieee", A]
            yield ["fp2ieee@meth", A]
            yield ["raw2fp", ["bvv", a, fpbits(srt)], srt]
            yield ["raw2fp@meth", ["bvv", a, fpbits(srt)], srt]
            yield ["raw2fp", ["fp2ieee", A], srt]
            yield ["fp2ieee", ["raw2fp", ["bvv", a, fpbits(srt)], srt]]
            eb, sb = (8, 23) if srt == "F" else (11, 52)
            n = 1 + eb + sb
            yield ["fpfp", ["bvv", a >> (n - 1), 1], ["bvv", (a >> sb) & ((1 << eb) - 1), eb], ["bvv", a & ((1 << sb) - 1), sb]]
            for rm in RMS:
                yield ["fp2fp", rm, A, other]
                yield ["fp2fp", rm, A, srt]
                yield ["fp2fp@meth", rm, A, other]
                for size in (8, 32, 64) if spec["pool"] == "full" else (8, 32):
                    yield ["fp2sbv", rm, A, size]
                    yield ["fp2ubv", rm, A, size]
                yield [rng.choice(["fp2sbv@meth", "fp2ubv@meth"]), rm, A, rng.choice([8, 16, 32, 64])]
        for w in (8, 32, 64):
            for v in _int_pool(w):
                for rm in RMS:
                    yield ["sbv2fp", rm, ["bvv", v, w], srt]
                    yield ["ubv2fp", rm, ["bvv", v, w], srt]
                yield [rng.choice(["sbv2fp@meth", "ubv2fp@meth"]), rng.choice(RMS), ["bvv", v, w], srt]
        for x in fpbuild.hostile_pyfloats():
            yield ["fpv_py", float(x).hex(), srt]
        # plain Python floats as operands of the operators (coerced by claripy), the two zeros one after the other
        xs_ = ["fps", "x" + srt, srt]
        for x in (0.0, -0.0, 0.0, -0.0, 1.5, -1.5, float("inf"), float("-inf"), 5e-324, 0.1):
            lit = ["fpv_py@raw", float(x).hex(), srt]
            for o in ("fpadd@py", "fpsub@py", "fpmul@py", "fpdiv@py"):
                yield [o, "RNE", xs_, lit]
                yield [o, "RNE", lit, xs_]
            yield ["ite", ["bools", "p"], xs_, ["fpv_py", float(x).hex(), srt]]
    elif k == "sym":
        for _ in range(spec["n"]):
            yield sym_case(rng)
    elif k == "tree":
        for _ in range(spec["n"]):
            yield tree_case(rng, rng.choice("FD"), rng.choice([1, 2, 2, 3]), concrete=rng.random() < 0.6)


def fpbits(S):
    return 32 if S == "F" else 64


def leaf(rng, S, concrete):
    from vf.gen import fpbuild

    if concrete or rng.random() < 0.4:
        return ["fpv", rng.choice(fpbuild.pool_bits(S)), S]
    return ["fps", rng.choice("xyz") + S, S]


def tree_case(rng, S, depth, concrete=False):
    t = fp_tree(rng, S, depth, concrete)
    k = rng.random()
    if k < 0.3:
        return t
    if k < 0.55:
        cmp_ = [rng.choice(CMPS), t, fp_tree(rng, S, depth - 1, concrete)]
        kk = rng.random()
        if kk < 0.25:
            return ["bnot", cmp_]
        if kk < 0.35:
            return [rng.choice(["band", "bor"]), cmp_, ["bnot", [rng.choice(CMPS), fp_tree(rng, S, depth - 1, concrete), t]]]
        return cmp_
    if k < 0.65:
        return [rng.choice(["fpisnan", "fpisinf"]), t]
    if k < 0.8:
        return [rng.choice(["fp2sbv", "fp2ubv"]), rng.choice(RMS), t, rng.choice([8, 32, 64])]
    if k < 0.9:
        return ["fp2ieee", t]
    return [rng.choice(["eq", "ult", "add"]), ["fp2ieee", t], ["bvv", rng.getrandbits(fpbits(S)), fpbits(S)]]


def fp_tree(rng, S, depth, concrete):
    if depth <= 0:
        return leaf(rng, S, concrete)
    k = rng.random()
    rm = rng.choice(RMS)
    if k < 0.55:
        return [rng.choice(ARITH), rm, fp_tree(rng, S, depth - 1, concrete), fp_tree(rng, S, depth - 1, concrete)]
    if k < 0.65:
        return ["fpsqrt", rm, fp_tree(rng, S, depth - 1, concrete)]
    if k < 0.75:
        return [rng.choice(["fpneg", "fpabs"]), fp_tree(rng, S, depth - 1, concrete)]
    if k < 0.85:
        other = "D" if S == "F" else "F"
        return ["fp2fp", rm, fp_tree(rng, other, depth - 1, concrete), S]
    if k < 0.92:
        w = rng.choice([8, 32, 64])
        bv = ["bvv", rng.choice(_int_pool(w)), w] if concrete or rng.random() < 0.5 else ["bvs", f"i{w}", w]
        return [rng.choice(["sbv2fp", "ubv2fp"]), rm, bv, S]
    c = [rng.choice(CMPS), fp_tree(rng, S, depth - 1, concrete), leaf(rng, S, concrete)]
    return ["ite", c, fp_tree(rng, S, depth - 1, concrete), fp_tree(rng, S, depth - 1, concrete)]


def sym_case(rng):
    S = rng.choice("FD")
    x, y = ["fps", "x" + S, S], ["fps", "y" + S, S]
    c = leaf(rng, S, True)
    rm = rng.choice(RMS)
    k = rng.randrange(20)
    other = "D" if S == "F" else "F"
    nan = ["fpv", 0x7FC00000 if S == "F" else 0x7FF8000000000000, S]
    w = rng.choice([8, 32, 64])
    return [
        lambda: [rng.choice(ARITH), rm, x, c],
        lambda: [rng.choice(ARITH), rm, c, x],
        lambda: [rng.choice(ARITH), rm, x, y],
        lambda: ["fpsqrt", rm, x],
        lambda: [rng.choice(["fpneg", "fpabs"]), x],
        lambda: [rng.choice(CMPS), x, c],
        lambda: [rng.choice(CMPS), x, y],
        lambda: [rng.choice(["fpisnan", "fpisinf"]), x],
        lambda: ["fp2fp", rm, x, other],
        lambda: [rng.choice(["sbv2fp", "ubv2fp"]), rm, ["bvs", f"i{w}", w], S],
        lambda: ["raw2fp", ["bvs", f"r{fpbits(S)}", fpbits(S)], S],
        lambda: ["fp2ieee", x],
        lambda: [rng.choice(["fp2sbv", "fp2ubv"]), rm, x, w],
        lambda: ["fp2ieee", ["raw2fp", ["bvs", f"r{fpbits(S)}", fpbits(S)], S]],
        # Boolean structure over float comparisons: IEEE comparisons are not each other's complements (NaN)
        lambda: ["bnot", [rng.choice(CMPS), x, y]],
        lambda: ["bnot", [rng.choice(CMPS), x, rng.choice([c, nan])]],
        lambda: ["bnot", [rng.choice(CMPS), rng.choice([c, nan]), x]],
        lambda: [rng.choice(["band", "bor"]), [rng.choice(CMPS), x, y], ["bnot", [rng.choice(CMPS), x, y]]],
        lambda: ["ite", ["bnot", [rng.choice(CMPS), x, y]], x, y],
        lambda: ["bnot", ["bnot", [rng.choice(["fpisnan", "fpisinf"]), x]]],
    ][k]()


def nontrivial(d):
    from vf.ref import fpref
    from vf.ref.bvsem import base

    return base(d[0]) not in ("fpv", "fps")


def run_shard(spec, res):
    rng = random.Random(f"{spec['seed']}:{PID}:{spec['kind']}:{spec.get('stream')}:{spec.get('S')}:{spec.get('op')}:{spec.get('rms')}")
    tmo = 2000 if spec["tier"] == "quick" else 10000
    keep = []  # earlier expressions stay alive while later ones are built (weakly held constant tables)
    for d in _cases(spec, rng):
        judge(d, res, rng, tmo, keep)
        if len(keep) > 3000:
            del keep[:1500]


def judge(d, res, rng, tmo, keep=None):
    import claripy
    import z3

    from vf.gen import fpbuild
    from vf.mon import sem
    from vf.ref import fpref, z3ref

    try:
        ast = fpbuild.build(d)
    except Exception as e:  # noqa: BLE001  (C04 judges crashes)
        res.count("build_raised:" + type(e).__name__)
        return
    if keep is not None:
        keep.append(ast)
    res.case(d, nontrivial(d))
    res.count("op:" + d[0].split("@")[0])
    try:
        R = fpref.term(d)
        G = fpref.unspecified_guard(d)
        symbolic = fpref.has_vars(d)
        # sort/width metadata must agree with what was written
        so = fpref.sort_of(d)
        if so[0] == "fp":
            want_len = fpref.nbits(so[1])
            ok_sort = isinstance(ast, claripy.ast.FP) and ast.length == want_len
        elif so[0] == "bv":
            ok_sort = isinstance(ast, claripy.ast.BV) and ast.length == so[1]
        else:
            ok_sort = isinstance(ast, claripy.ast.Bool)
        if not ok_sort:
            res.violation({"kind": "fp", "what": "sort", "case": d, "observed": f"{type(ast).__name__}/{getattr(ast, 'length', None)}", "expected": so})
            return
        T = sem.claripy_z3(ast)
        if not symbolic:
            res.count("judged_concrete")
            g = z3.simplify(G)
            if not z3.is_true(g):
                res.count("exempt_unspecified")
                return
            if ast.op in ("FPV", "BVV", "BoolV"):
                res.count("folded")
            Ts, Rs = z3.simplify(T), z3.simplify(R)
            same = fpref.same_value(Ts, Rs)
            if same is True:
                return
            if same is False:
                res.violation({"kind": "fp", "what": "concrete-value", "case": d, "observed": str(Ts), "expected": str(Rs), "folded": ast.op in ("FPV", "BVV", "BoolV")})
                return
        res.count("judged_symbolic")
        if T.eq(R):
            res.count("sym_structural")
            return
        st, wit = z3ref.equivalent(T, R, timeout_ms=tmo, rng=rng, hyp=[G])
        res.count("sym_status:" + st)
        if st == "neq":
            res.violation({"kind": "fp", "what": "not-equivalent", "case": d, "observed": str(T)[:300], "expected": str(R)[:300], "assignment": wit})
        elif st == "sort":
            res.violation({"kind": "fp", "what": "z3-sort", "case": d, "observed": wit})
        elif st == "sampled":
            bad = sample_fp(d, T, R, G, rng)
            if bad:
                res.violation({"kind": "fp", "what": "not-equivalent-sampled", "case": d, **bad})
    except Exception as e:  # noqa: BLE001
        res.violation({"kind": "fp", "what": "oracle-exception", "case": d, "observed": repr(e), "tb": traceback.format_exc()[-1500:]})


def sample_fp(d, T, R, G, rng, n=40):
    """Substitute pool constants for the variables of both terms and compare by Z3 folding."""
    import z3

    from vf.gen import fpbuild
    from vf.ref import fpref, z3ref

    c = z3ref.ctx()
    consts = z3ref.free_consts(T)
    z3ref.free_consts(R, consts)
    for _ in range(n):
        subs, asg = [], {}
        for name, k in consts.items():
            s = k.sort()
            if z3.is_fp_sort(s):
                S = "F" if s.ebits() == 8 else "D"
                b = rng.choice(fpbuild.pool_bits(S))
                subs.append((k, z3.fpBVToFP(z3.BitVecVal(b, fpref.nbits(S), ctx=c), s, ctx=c)))
                asg[name] = hex(b)
            elif z3.is_bv_sort(s):
                v = rng.choice([0, 1, (1 << s.size()) - 1, 1 << (s.size() - 1), rng.getrandbits(s.size())])
                subs.append((k, z3.BitVecVal(v, s.size(), ctx=c)))
                asg[name] = v
            else:
                v = rng.random() < 0.5
                subs.append((k, z3.BoolVal(v, ctx=c)))
                asg[name] = v
        g = z3.simplify(z3.substitute(G, *subs))
        if not z3.is_true(g):
            continue
        a, b = z3.simplify(z3.substitute(T, *subs)), z3.simplify(z3.substitute(R, *subs))
        if fpref.same_value(a, b) is False:
            return {"assignment": asg, "observed": str(a), "expected": str(b)}
    return None


def replay(w, res):
    judge(w["case"], res, random.Random(0), 10000)
