"""C01 — bitvector and Boolean expressions mean exactly what the written operations say."""
from __future__ import annotations

import random
import traceback

PID = "C01"
LEVEL = "exploration"
RULE = (
    "cases are operation-tree descriptors built through claripy's public constructors/operators; "
    "exhaustive families (all constants at small widths, one- and two-level operator nests), one template per "
    "rewrite rule instantiated at random widths/constants (incl. instantiations violating the rule's unstated "
    "assumptions), and seeded random typed trees with python-int/slice/If surface forms.  A case is non-trivial "
    "when it contains at least one operator node and at least one variable; distinct = distinct descriptor hash. "
    "Oracle: claripy's Z3 translation of the returned AST == independently built Z3 term (solver, all assignments); "
    "and the tree rebuilt on constants folds to the pure-Python SMT-LIB value (all assignments when <= 6 var bits)."
    " Session 4: one-piece-changed near misses of every multi-step matcher (min/max idiom, rotate-shift-mask, narrower rotations), third operands in commutative nodes, and an annotated shard (the same shapes with annotations on random leaves and nodes)."
)
ASSUMPTIONS = [
    "z3-solver 4.13 decides QF_BV equivalence correctly (terms built by vf/ref/z3ref.py in a private context)",
    "vf/ref/bvsem.py implements SMT-LIB bit-vector semantics (cross-checked against Z3 at start-up)",
    "SMod denotes bvsrem (what both claripy backends implement)",
]


def floors(tier):
    return {"judged": 2000 if tier == "quick" else 20000, "rule_fired_total": 200, "judged_with_annotations": 1000 if tier == "quick" else 10000}


def plan(tier, seed):
    from vf.gen.exprgen import BIN_ALL

    S = []
    if tier == "quick":
        S += [{"kind": "l1", "w": w} for w in (1, 2, 3)]
        for i in range(0, len(BIN_ALL), 3):
            S.append({"kind": "l2", "w": 2, "ops1": BIN_ALL[i : i + 3]})
        S.append({"kind": "unary", "w": 2})
        S += [{"kind": "l2", "w": 3, "ops1": [o]} for o in ("shl", "sub", "and", "xor")]
        S += [{"kind": "tmpl", "n": 20, "stream": i} for i in range(16)]
        S += [{"kind": "rand", "n": 1200, "stream": i, "depth": 3 + i % 3} for i in range(16)]
        S += [{"kind": "ann", "n": 12, "stream": i} for i in range(8)]
        S += [{"kind": "selfcheck"}]
    else:
        S += [{"kind": "l1", "w": w} for w in (1, 2, 3, 4)]
        for o in BIN_ALL:
            S.append({"kind": "l2", "w": 3, "ops1": [o]})
        S.append({"kind": "l2", "w": 2, "ops1": BIN_ALL})
        S += [{"kind": "unary", "w": w} for w in (1, 2, 3)]
        S += [{"kind": "tmpl", "n": 60, "stream": i} for i in range(32)]
        S += [{"kind": "rand", "n": 2500, "stream": i, "depth": 3 + i % 3} for i in range(32)]
        S += [{"kind": "ann", "n": 40, "stream": i} for i in range(16)]
        S += [{"kind": "selfcheck"}]
    return S


def _cases(spec, rng):
    from vf.gen import exprgen as G

    k = spec["kind"]
    if k == "l1":
        yield from G.exhaustive_level1(spec["w"])
    elif k == "l2":
        yield from G.exhaustive_level2(spec["w"], ops1=spec["ops1"])
    elif k == "unary":
        yield from G.exhaustive_unary_over(spec["w"])
    elif k == "tmpl":
        for _ in range(spec["n"]):
            yield from G.templates(rng)
    elif k == "ann":
        # the same shapes with annotations on random leaves and inner nodes (annotations never change what an
        # expression denotes; rules that compare operands by identity see equal operands as different objects)
        for _ in range(spec["n"]):
            yield from G.templates(rng)
            g = G.Gen(rng, nvars=rng.choice([1, 2]), widths=[1, 2, 3, 4, 8, 32], surface=False)
            for _ in range(40):
                yield g.any(rng.choice([1, 2, 3]))
    elif k == "rand":
        widths = [1, 2, 3, 4, 5, 8, 16, 32, 64]
        if spec["stream"] % 4 == 3:
            widths = [7, 9, 13, 24, 31, 33, 63, 65, 128, 256]
        for i in range(spec["n"]):
            g = G.Gen(rng, nvars=rng.choice([1, 2, 3]), widths=widths)
            yield g.any(rng.choice([1, 2, spec["depth"], spec["depth"]]))


def run_shard(spec, res):
    import claripy

    from vf.gen.build import build, well_formed
    from vf.mon import rules, sem
    from vf.ref import bvsem

    rng = random.Random(f"{spec['seed']}:{PID}:{spec['kind']}:{spec.get('stream', spec.get('w', 0))}:{spec.get('ops1')}")
    if spec["kind"] == "selfcheck":
        return selfcheck(res, rng)
    rules.install()
    keep = sem.Keep()
    tmo = 2000 if spec["tier"] == "quick" else 8000
    for i, d in enumerate(_cases(spec, rng)):
        if not well_formed(d):
            continue
        ann = None
        if spec["kind"] == "ann":
            ann = [f"{spec['seed']}:{spec['stream']}:{i}", rng.choice([0.15, 0.3, 0.6])]
        judge(d, res, rng, keep, tmo, spec["kind"], ann=ann)
    rules.report(res)
    res.count("rule_fired_total", sum(rules.fired.values()))


def judge(d, res, rng, keep, tmo, kind="replay", ann=None):
    import claripy

    from vf.gen.build import build
    from vf.mon import sem
    from vf.ref import bvsem

    nontrivial = bool(bvsem.variables(d)) and bvsem.size(d) > 1
    try:
        if ann is not None:
            from vf.gen import astwork

            log = []
            ast = astwork.build_annotated(d, random.Random(ann[0]), p=ann[1], log=log)
            res.count("annotations_placed", len(log))
            if log:
                res.count("judged_with_annotations")
        else:
            ast = build(d)
    except claripy.errors.ClaripyZeroDivisionError:
        res.count("exempt_div0")
        if not sem.div0_possible(d, rng):
            res.case(d, nontrivial)
            res.violation({"kind": "meaning", "what": "div0-raised-without-zero-divisor", "case": d})
        return
    except Exception as e:  # noqa: BLE001  (C04 judges crashes; here they are only counted)
        res.count("build_raised:" + type(e).__name__)
        return
    keep.add(ast)
    res.case(d, nontrivial)
    res.count("judged")
    for o in bvsem.ops_in(d):
        res.count("op:" + o)
    res.setadd("widths", str(sem.sort_of_desc(d)[-1]))
    try:
        probs, st = sem.check_meaning(d, ast, rng, timeout_ms=tmo)
    except Exception as e:  # noqa: BLE001
        res.violation({"kind": "meaning", "what": "oracle-exception", "case": d, "observed": repr(e), "tb": traceback.format_exc()[-1500:]})
        return
    res.count("z3_status:" + st)
    if repr(ast) and ast.op != bvsem.base(d[0]):
        res.count("rewritten_or_folded")
    for p in probs:
        res.violation({"kind": "meaning", "case": d, "shard": kind, **({"ann": ann} if ann else {}), **p})


def replay(w, res):
    from vf.mon import sem

    judge(w["case"], res, random.Random(0), sem.Keep(), 10000, ann=w.get("ann"))


def selfcheck(res, rng):
    """Reference self-test: bvsem vs Z3 on random trees (a failure makes the run inconclusive,
    never a violation: it would be a defect of the oracle, not of claripy)."""
    import z3

    from vf.gen import exprgen as G
    from vf.mon import sem
    from vf.ref import bvsem, z3ref

    bad = 0
    for i in range(300):
        g = G.Gen(rng, nvars=2, widths=[1, 2, 3, 4, 8, 16], surface=False)
        d = g.any(3)
        env = {n: (rng.getrandbits(s[1]) if s[0] == "bv" else rng.random() < 0.5) for n, s in bvsem.variables(d).items()}
        want = bvsem.ev(d, env)
        got = sem._eval_z3(z3ref.term(d), env)
        res.count("selfcheck_cases")
        if want != got:
            bad += 1
            res.inconc(f"reference self-test failed: bvsem {want} vs z3 {got} on {d} under {env}")
    return bad
