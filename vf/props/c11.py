"""C11 — solver answers are correct after any sequence of operations."""
from __future__ import annotations

import random
import traceback

PID = "C11"
LEVEL = "exploration"
RULE = (
    "a case is one history (sequence of add / satisfiable / eval / batch_eval / min / max (signed, unsigned) / solution "
    "/ is_true / is_false / simplify / downsize / branch steps, each query with or without extra constraints) run on a "
    "real Solver, SolverCacheless or SolverStrings; monitor M-api records call and return of every public method and "
    "judges every answer against a stateless reference over the descriptors of the constraints added so far: exact "
    "model set by enumeration when the variables total <= 13 bits (no SMT solver involved), a fresh private Z3 solver "
    "otherwise.  Histories: bounded-exhaustive (all sequences up to length 3/4 over a 10-step alphabet around one "
    "constraint set) and random length 6..40 over alphabets built to reach each cache flag (pins, feasible sets of "
    "size 1..3, contradictions among the first constraints, concrete True/False, fresh variables in queries); "
    "configurations reuse_z3_solver off/on (on: two or three interleaved frontends in one thread) and track off/on; "
    "string histories whose model set is the set of substrings of a literal.  Non-trivial: the history contains at "
    "least one add and one judged query; distinct by history hash.  Evidence lists the cache states visited."
    " Session 4: histories in which the solver is handed a constraint its backend cannot translate (answers after that are judged for soundness against the understood constraints; errors are expected)."
)
ASSUMPTIONS = [
    "eval/batch_eval on an unsatisfiable store may raise UnsatError or return nothing (both count as 'no feasible result')",
    "a variable-free expression evaluated on an unsatisfiable store is answered without consulting the store (by design); only its value is checked",
]


def floors(tier):
    return {"answers_judged": 3000 if tier == "quick" else 40000, "histories": 200, "ref_unsat": 100, "with_extra": 300, "cache_states_seen": 15}


def plan(tier, seed):
    q = tier == "quick"
    S = []
    for cls in ("Solver", "SolverCacheless", "SolverStrings"):
        for reuse in (0, 1):
            for i in range(2 if q else 8):
                S.append({"kind": "rand", "cls": cls, "reuse": reuse, "track": (i % 2), "stream": i, "n": 150 if q else 600, "env": {"REUSE_Z3_SOLVER": str(reuse)}})
    for cls in ("Solver", "SolverCacheless"):
        for i in range(2 if q else 6):
            S.append({"kind": "exh", "cls": cls, "stream": i, "maxlen": 2 if q else 3, "env": {"REUSE_Z3_SOLVER": "0"}})
    S += [{"kind": "wide", "cls": "Solver", "stream": i, "n": 12 if q else 120, "env": {"REUSE_Z3_SOLVER": str(i % 2)}} for i in range(2 if q else 6)]
    S += [{"kind": "strings", "stream": i, "n": 25 if q else 250, "env": {"REUSE_Z3_SOLVER": "0"}} for i in range(2 if q else 4)]
    if not q:
        S += [{"kind": "exh", "cls": "Solver", "stream": 100 + i, "maxlen": 4, "env": {"REUSE_Z3_SOLVER": "0"}, "limit": 6000} for i in range(4)]
    return S


def run_history(res, al_vars, steps, make, cfg, keep, mode="exact", pid=PID, **runkw):
    from vf.mon import api

    run = api.Run(res, al_vars, make, pid, mode=mode, cfg=cfg, keep=keep, **runkw)
    for st in steps:
        if st["s"] >= len(run.live):
            continue
        run.step(st)
        s = run.live[st["s"]].solver
        res.setadd("cache_states", repr(api.cache_state(s)), cap=300)
        if run.failed:
            break
    res.count("histories")
    nontrivial = any(x["op"] == "add" for x in steps) and any(x["op"] in ("eval", "min", "max", "satisfiable", "solution", "batch_eval") for x in steps)
    res.case([cfg, steps], nontrivial, sample={"config": cfg, "steps": steps[:8]})
    return run


def run_shard(spec, res):
    import claripy

    from vf.gen import histories as H

    rng = random.Random(f"{spec['seed']}:{PID}:{spec['kind']}:{spec.get('cls')}:{spec.get('reuse')}:{spec.get('stream')}")
    keep = []
    kind = spec["kind"]
    assert claripy.backends.z3.reuse_z3_solver == (spec.get("env", {}).get("REUSE_Z3_SOLVER") == "1"), "reuse flag not applied"
    if kind in ("rand", "exh", "wide"):
        cls = getattr(claripy, spec["cls"])
        track = bool(spec.get("track"))
        cfg = {"cls": spec["cls"], "reuse": int(spec.get("reuse", 0)), "track": track}

        def make():
            return cls(track=True) if track else cls()

        if kind == "rand":
            for i in range(spec["n"]):
                al = H.Alphabet(rng, allow_div=(i % 7 == 0))
                if spec.get("reuse"):
                    # two or three frontends interleaved in one thread share the thread's Z3 solver
                    _, steps = H.history(rng, al=al, p_branch=0.12)
                    if steps and steps[0]["op"] != "branch":
                        steps.insert(rng.randrange(0, 2), {"op": "branch", "s": 0})
                else:
                    _, steps = H.history(rng, al=al, p_branch=0.04 if i % 3 == 0 else 0.0)
                if i % 8 == 5 and len(steps) >= 3:
                    # somewhere after the first steps the solver is handed a constraint its backend cannot translate;
                    # an explicit simplify (which rebuilds the backend solver) somewhere before or after it
                    pos = rng.randrange(2, len(steps) + 1)
                    ins = [{"op": "add_untranslatable", "s": 0, "how": rng.choice(["union", "strisdigit"])}]
                    if rng.random() < 0.6:
                        ins.insert(rng.randrange(2), {"op": "simplify", "s": 0})
                    steps[pos:pos] = ins
                    x_ = al.v(0)
                    steps += [{"op": "eval", "s": 0, "e": x_, "n": 3, "extra": []}, {"op": "eval", "s": 0, "e": x_, "n": 70, "extra": []}, {"op": "max", "s": 0, "e": x_, "signed": False, "extra": []}, {"op": "satisfiable", "s": 0, "extra": []}]
                    res.count("histories_with_untranslatable_constraint")
                run_history(res, al.vars, steps, make, cfg, keep)
                del keep[:]
            if track and spec.get("stream", 0) < 2:
                collision_histories(res, make, cfg, keep, rng)
        elif kind == "exh":
            al = H.Alphabet(rng, w=3, nvars=2, nbools=0)
            n = 0
            for steps in H.exhaustive_short(al, rng, spec["maxlen"]):
                n += 1
                if spec.get("limit") and n > spec["limit"]:
                    break
                run_history(res, al.vars, steps, make, dict(cfg, exhaustive=spec["maxlen"]), keep)
                del keep[:]
            res.count("exhaustive_histories", n)
        else:
            for i in range(spec["n"]):
                al = H.Alphabet(rng, w=rng.choice([8, 16, 32, 64]), nvars=2, nbools=0)
                al.vars = dict(al.vars)
                _, steps = H.history(rng, length=rng.choice([5, 8, 12]), al=al)
                run_history(res, al.vars, steps, make, dict(cfg, wide=al.w), keep)
                del keep[:]
    elif kind == "strings":
        strings_shard(spec, res, rng)
    res.count("cache_states_seen", len(res.sets.get("cache_states", ())))


def collision_histories(res, make, cfg, keep, rng):
    """constraint tracking names every asserted constraint; pairs of different constraints that the backend's own
    (weak) term hash cannot tell apart are searched for and added to one tracked solver"""
    import claripy

    from vf.gen.build import build

    y = ["bvs", "y8", 8]
    groups = {}
    for k in range(256):
        for t in range(256):
            d = ["eq", ["add", y, ["bvv", k, 8]], ["bvv", t, 8]]
            z = claripy.backends.z3.convert(build(d))
            groups.setdefault(hash(z), {})[z.sexpr()] = d
    pairs = [list(g.values())[:2] for g in groups.values() if len(g) >= 2]
    res.count("hash_colliding_constraint_pairs_found", len(pairs))
    rng.shuffle(pairs)
    for a, b in pairs[:8]:
        steps = [{"op": "add", "s": 0, "cons": [a]}, {"op": "add", "s": 0, "cons": [b]}, {"op": "satisfiable", "s": 0, "extra": []}, {"op": "eval", "s": 0, "e": y, "n": 5, "extra": []}, {"op": "max", "s": 0, "e": y, "signed": False, "extra": []}]
        if rng.random() < 0.5:
            steps.insert(1, {"op": "satisfiable", "s": 0, "extra": []})
        run_history(res, {"y8": ("bv", 8)}, steps, make, dict(cfg, colliding_pair=True), keep)
        res.count("histories_with_hash_colliding_pair")
        del keep[:]


def strings_shard(spec, res, rng):
    """SolverStrings: model set = substrings of a literal with a given length (computed in Python)."""
    import claripy

    for it in range(spec["n"]):
        alpha = rng.choice(["ab", "abc", "a\x00b\\", "aé😀b"])
        L = "".join(rng.choice(alpha) for _ in range(rng.choice([3, 4, 5, 6])))
        k = rng.choice([0, 1, 2, 3])
        feas = sorted({L[i : i + k] for i in range(len(L) - k + 1)})
        s = claripy.SolverStrings()
        x = claripy.StringS("sx", explicit_name=True)
        cons = [claripy.StrContains(claripy.StringV(L), x), claripy.StrLen(x) == k]
        hist = []
        try:
            if rng.random() < 0.5:
                s.add(cons)
            else:
                s.add(cons[:1])
                hist.append("eval-before")
                s.eval(x, 2)
                s.add(cons[1:])
            extra_pin = rng.choice(feas) if feas and rng.random() < 0.4 else None
            for q in range(rng.choice([1, 2, 3])):
                n = rng.choice([1, 2, 3, 10, 30])
                ex = (x != claripy.StringV(extra_pin),) if extra_pin is not None and q % 2 else ()
                want = [f for f in feas if not ex or f != extra_pin]
                hist.append(["eval", n, bool(ex)])
                res.count("answers_judged")
                res.count("op:eval")
                try:
                    got = s.eval(x, n, extra_constraints=ex)
                except claripy.errors.UnsatError:
                    got = None
                if got is None:
                    if want:
                        res.violation({"kind": "history", "what": "UnsatError-on-satisfiable", "mon": "M-api-strings", "literal": L, "k": k, "history": hist})
                    continue
                if len(set(got)) != len(got) or any(g not in want for g in got) or len(got) != min(n, len(want)):
                    res.violation({"kind": "history", "what": "string-eval-wrong", "mon": "M-api-strings", "literal": L, "k": k, "observed": list(got), "feasible": want, "n": n, "history": hist})
                ln = s.eval(claripy.StrLen(x), 3, extra_constraints=ex)
                res.count("answers_judged")
                if want and tuple(ln) != (k,):
                    res.violation({"kind": "history", "what": "string-len-eval-wrong", "mon": "M-api-strings", "literal": L, "k": k, "observed": list(ln)})
                cand = rng.choice(feas + ["zz", ""]) if feas else "zz"
                sol = s.solution(x, claripy.StringV(cand), extra_constraints=ex)
                res.count("answers_judged")
                res.count("op:solution")
                if sol != (cand in want):
                    res.violation({"kind": "history", "what": "string-solution-wrong", "mon": "M-api-strings", "literal": L, "k": k, "candidate": cand, "observed": sol, "feasible": want})
            res.count("histories")
            res.case(["strings", L, k, hist], True)
        except (claripy.errors.ClaripyZ3Error, claripy.errors.ClaripySolverInterruptError) as e:
            # the sequence solver gave up (a claripy error, as C17 requires): this history decides nothing
            res.count("solver_gave_up")
            res.setadd("gave_up_reasons", repr(e.__cause__ or e)[:120])
        except claripy.errors.ClaripyError as e:
            res.violation({"kind": "history", "what": "query-raised", "mon": "M-api-strings", "literal": L, "k": k, "observed": repr(e)[:200], "history": hist, "tb": traceback.format_exc()[-1200:]})


def replay(w, res):
    import claripy

    cfg = w.get("config") or {}
    steps = [e[2] for e in w.get("history", [])]
    cls = getattr(claripy, cfg.get("cls", "Solver"))
    vars_ = {}
    from vf.ref import bvsem

    def collect(x):
        if isinstance(x, list):
            if x and isinstance(x[0], str):
                vars_.update(bvsem.variables(x)) if x[0] not in ("add",) else None
            for y in x:
                collect(y)
        elif isinstance(x, dict):
            for y in x.values():
                collect(y)

    collect(steps)
    run_history(res, {k: v for k, v in vars_.items() if not k.startswith("fresh")}, steps, (lambda: cls(track=True)) if cfg.get("track") else cls, cfg, [])
