"""C18 — pickled expressions and solvers round-trip with identical meaning."""
from __future__ import annotations

import base64
import json
import os
import pickle
import random
import subprocess
import sys
import traceback

PID = "C18"
LEVEL = "exploration"
RULE = (
    "cases: (expr, in-process) loads(dumps(e)) is e for BV/Bool/FP/string expressions from the C01-C03 generators, "
    "plain and annotated, also after the original was dropped and garbage-collected; (solver, in-process) every "
    "frontend class after a random history is pickled, the copy continues the history next to the original, both "
    "judged against the reference (exact classes) and against each other by a model-set probe (all classes); "
    "(cross-process) the parent writes pickles plus descriptors, a child interpreter started with a different "
    "PYTHONHASHSEED and nothing pre-built loads them, rebuilds each descriptor independently and requires the "
    "unpickled AST to be that very object (hence structurally equal: op, args, length, annotation contents) and "
    "equivalent, and unpickled solvers to answer a fixed set of queries as the reference says.  Non-trivial: the "
    "pickled object has an operator node / the solver has at least one constraint; distinct by descriptor hash."
    " Session 4: a solver and its copy in one pickle; replacement/hybrid solvers with float replacements unpickled under another hash seed. Session 5: SolverReplacement with user replacements, asked about expressions over the replaced variables before it is stored (one or two generations), then the same store changes (overwrite, remove, clear, add another) on original and copy with the same questions after each."
)
ASSUMPTIONS = ["pickles are exchanged between processes running the same claripy tree only"]

CLASSES = ["Solver", "SolverCacheless", "SolverComposite", "SolverReplacement", "SolverHybrid", "SolverVSA", "SolverConcrete", "SolverStrings"]
EXACT = {"Solver", "SolverCacheless", "SolverComposite", "SolverStrings", "SolverReplacement", "SolverHybrid"}


def floors(tier):
    return {"expr_roundtrips": 1500, "solver_roundtrips": 150, "xproc_exprs": 400, "xproc_solvers": 50, "xproc_children": 2}


def plan(tier, seed):
    q = tier == "quick"
    S = [{"kind": "expr", "stream": i, "n": 1500 if q else 8000} for i in range(3 if q else 8)]
    S += [{"kind": "solver", "cls": c, "stream": 0, "n": 25 if q else 300, "env": {"REUSE_Z3_SOLVER": "0"}} for c in CLASSES]
    S += [{"kind": "xproc", "stream": i, "n": 400 if q else 1500, "hashseed": hs} for i, hs in enumerate(["1", "12345"] if q else ["1", "12345", "random", "4294967295"])]
    return S


def gen_any(rng, i):
    """(family, descriptor)"""
    from vf.gen import exprgen as G
    from vf.props import c02, c03

    k = i % 5
    if k in (0, 1, 2):
        g = G.Gen(rng, nvars=rng.choice([1, 2, 3]), widths=[1, 3, 8, 32, 64], surface=False)
        return "bv", g.any(rng.choice([1, 2, 3, 4]))
    if k == 3:
        return "fp", (c02.sym_case(rng) if rng.random() < 0.5 else c02.tree_case(rng, rng.choice("FD"), 2, concrete=False))
    d0 = c03.rand_tree(rng, 2)
    sym = c03.symbolize(d0, rng)
    return "str", (sym[0] if sym else d0)


def builder(fam):
    from vf.gen import build as bvb
    from vf.gen import fpbuild, strbuild

    return {"bv": bvb.build, "fp": fpbuild.build, "str": strbuild.build}[fam]


class _PlainUserAnnotation:
    pass


def _mk_plain_user_annotation():
    import claripy

    global _PlainUserAnnotation

    class _PlainUserAnnotation(claripy.Annotation):  # noqa: F811
        """identity equality and hashing, like most annotations written outside claripy"""

        def __init__(self, n):
            self.n = n

        @property
        def eliminatable(self):
            return False

        @property
        def relocatable(self):
            return False

    _PlainUserAnnotation.__module__ = __name__
    _PlainUserAnnotation.__qualname__ = "_PlainUserAnnotation"
    return _PlainUserAnnotation


def annotate_det(ast, i):
    """deterministic annotation placement (must be reproducible in the child process)"""
    import claripy

    from vf.gen import astwork

    if not isinstance(ast, claripy.ast.Base):
        return ast
    k = i % 7
    if k == 1:
        return ast.annotate(astwork.NE("t%d" % (i % 3)))
    if k == 2:
        return ast.annotate(astwork.REL(i % 4), astwork.ELIM("e"))
    if k == 3:
        return ast.annotate(claripy.annotation.StridedIntervalAnnotation(1, -(i % 5) - 1, 200))
    if k == 4:
        return ast.annotate(claripy.annotation.RegionAnnotation("stack", 0x1000 * (i % 3)), claripy.annotation.UninitializedAnnotation())
    return ast


def run_shard(spec, res):
    import gc

    _mk_plain_user_annotation()

    import claripy

    rng = random.Random(f"{spec['seed']}:{PID}:{spec['kind']}:{spec.get('cls')}:{spec.get('stream')}")
    kind = spec["kind"]
    if kind == "expr":
        keep = []
        for i in range(spec["n"]):
            fam, d = gen_any(rng, i)
            try:
                e = annotate_det(builder(fam)(d), i)
            except Exception:  # noqa: BLE001
                continue
            if not isinstance(e, claripy.ast.Base):
                continue
            try:
                blob = pickle.dumps(e, -1)
                e2 = pickle.loads(blob)
            except Exception as ex:  # noqa: BLE001
                res.violation({"kind": "pickle", "what": "expr-pickle-raised", "family": fam, "case": d, "observed": repr(ex)[:300], "tb": traceback.format_exc()[-1200:]})
                continue
            res.count("expr_roundtrips")
            res.case(["expr", fam, d, i % 7], not e.is_leaf())
            if i % 5 == 2:
                # the way users usually write an annotation: no __eq__/__hash__ of its own, so every instance (and every
                # unpickled copy) is a different annotation - the live expression must still be found again
                ea = e.annotate(_PlainUserAnnotation(i))
                if not ea.is_leaf() and len(ea.args) and isinstance(ea.args[0], claripy.ast.Base) and i % 2:
                    try:
                        ea = type(ea).__add__(ea, 1) if isinstance(ea, claripy.ast.BV) else ea
                    except Exception:  # noqa: BLE001
                        pass
                try:
                    eb = pickle.loads(pickle.dumps(ea, -1))
                except Exception as ex:  # noqa: BLE001
                    res.violation({"kind": "pickle", "what": "expr-pickle-raised", "family": fam, "case": d, "observed": repr(ex)[:300], "annotation": "identity-hashed user annotation"})
                    continue
                res.count("expr_roundtrips_with_identity_hashed_annotation")
                if ea._hash >= 2**63:
                    res.count("expr_roundtrips_with_identity_hashed_annotation_and_top_bit_hash")
                keep.append(ea)
                if eb is not ea:
                    res.violation({"kind": "pickle", "what": "unpickled-expression-is-not-the-same-object", "family": fam, "case": d, "annotation": "identity-hashed user annotation", "observed": [repr(ea)[:150], repr(eb)[:150], ea._hash, eb._hash]})
                    continue
                if any(isinstance(a_, _PlainUserAnnotation) for a_ in ea.annotations):
                    # ... and when the original is gone: what comes back carries a *new* annotation object; building the
                    # same expression again around that object must give the unpickled expression itself
                    blob2 = pickle.dumps(ea, -1)
                    keep[:] = [k_ for k_ in keep if k_ is not ea]
                    del ea, eb
                    gc.collect()
                    ec = pickle.loads(blob2)
                    again = ec.remove_annotations(ec.annotations).annotate(*ec.annotations)
                    res.count("expr_rebuilt_around_unpickled_annotation")
                    if again is not ec:
                        res.violation({"kind": "pickle", "what": "expression-rebuilt-around-the-unpickled-annotation-is-another-object", "family": fam, "case": d, "observed": [repr(ec)[:150], ec._hash, again._hash]})
                        continue
                    keep.append(ec)
            if e2 is not e:
                res.violation({"kind": "pickle", "what": "unpickled-expression-is-not-the-same-object", "family": fam, "case": d, "observed": [repr(e)[:150], repr(e2)[:150], e._hash, e2._hash]})
                continue
            if i % 4 == 0:
                # drop every reference, collect, unpickle: must be rebuilt equal to a fresh build
                h, r = e._hash, repr(e)
                ann = repr(e.annotations)
                del e, e2
                gc.collect()
                e3 = pickle.loads(blob)
                e4 = annotate_det(builder(fam)(d), i)
                res.count("expr_roundtrips_after_gc")
                if e3 is not e4 or repr(e3) != r or repr(e3.annotations) != ann:
                    res.violation({"kind": "pickle", "what": "expression-unpickled-after-gc-differs-from-fresh-build", "family": fam, "case": d, "observed": [repr(e3)[:150], repr(e4)[:150]]})
                keep.append(e3)
            if len(keep) > 2000:
                del keep[:1000]
    elif kind == "solver":
        solver_shard(spec, res, rng)
        if spec["cls"] == "SolverReplacement":
            replacement_store_scenarios(spec, res, rng)
    elif kind == "xproc":
        xproc_shard(spec, res, rng)


def solver_shard(spec, res, rng):
    import claripy

    from vf.gen import histories as H
    from vf.mon import api

    cname = spec["cls"]
    cls = getattr(claripy, cname)
    cfg = {"cls": cname, "reuse": 0}
    mode = "exact" if cname in EXACT else "none"
    keep = []
    for it in range(spec["n"]):
        al = H.Alphabet(rng, w=rng.choice([3, 4]), nvars=rng.choice([2, 3]), nbools=0)
        track = cname in ("Solver", "SolverComposite") and it % 3 == 0
        run = api.Run(res, al.vars, (lambda: cls(track=True)) if track else cls, PID, mode=mode, cfg=dict(cfg, track=track), keep=keep)
        _, pre = H.history(rng, length=rng.choice([2, 5, 9, 15]), al=al)
        _, post = H.history(rng, length=rng.choice([3, 6, 10]), al=al)
        try:
            for st in pre:
                if st["s"] == 0:
                    run.step(st)
            if run.failed or run.live[0].tainted:
                continue
            s = run.live[0].solver
            try:
                s2 = pickle.loads(pickle.dumps(s, -1))
            except Exception as ex:  # noqa: BLE001
                res.violation({"kind": "pickle", "what": "solver-pickle-raised", "config": run.cfg, "observed": repr(ex)[:300], "tb": traceback.format_exc()[-1500:], "history": run.log[-20:]})
                continue
            run.live.append(api.Live(s2, run.live[0].cons, label="unpickled"))
            i2 = len(run.live) - 1  # (the history before may have made copies of its own)
            run.log.append([run.clock, 0, {"op": "PICKLE-ROUNDTRIP", "s": 0}, ["ok", None]])
            res.count("solver_roundtrips")
            res.count("solver_roundtrips:" + cname)
            exprs = [al.v(0), al._expr()]
            p1 = api.probe(s, exprs, [al.constraint()], run.b)
            rng_state = rng.getstate()
            p2 = api.probe(s2, exprs, [], run.b)[: len(p1) - 1]
            if p1[: len(p2)] != p2:
                run.viol({"op": "probe"}, "unpickled-solver-answers-differ-from-original", original=p1[: len(p2)], unpickled=p2, exprs=exprs)
                continue
            for st in post:
                if st["s"] != 0:
                    continue
                run.step(dict(st, s=0))
                run.step(dict(st, s=i2))
                if run.failed:
                    break
            if not run.failed:
                p1 = api.probe(s, exprs, [], run.b)
                p2 = api.probe(s2, exprs, [], run.b)
                if p1 != p2:
                    run.viol({"op": "probe"}, "unpickled-solver-answers-differ-from-original-later", original=p1, unpickled=p2, exprs=exprs)
                elif cname == "SolverHybrid":
                    # the approximate half must have come back with the same settings and state too
                    for x_ in (al.v(0), al.v(1 % al.nvars)):
                        for bound in (al.k(), al.k()):
                            c_ = [rng.choice(["ule", "uge", "ult"]), x_, bound]
                            for lv in (run.live[0], run.live[i2]):
                                try:
                                    lv.solver.add([run.b(c_)])
                                    lv.cons.append(c_)
                                except claripy.errors.ClaripyError:
                                    pass
                    a1 = api.probe(s, [al.v(0), al.v(1 % al.nvars)], [], run.b, qkw={"exact": False})
                    a2 = api.probe(s2, [al.v(0), al.v(1 % al.nvars)], [], run.b, qkw={"exact": False})
                    res.count("approximate_probe_pairs")
                    if a1 != a2:
                        run.viol({"op": "probe"}, "unpickled-solver-approximate-answers-differ-from-original", original=a1, unpickled=a2)
            if not run.failed and it % 3 == 2:
                # stored before it was ever asked anything: six or more constraints, two of them contradicting each other
                # directly over one variable - the copy that comes back must find that out like the original
                pc = cls(track=True) if track else cls()
                # (the contradictory pair gets a variable of its own when there is more than one)
                vs_ = [al.v(0)] + [al.v(1 + j % max(1, al.nvars - 1)) if al.nvars > 1 else al.v(0) for j in range(2)]
                k1 = al.k()
                k2 = ["bvv", (k1[1] + 1 + rng.randrange((1 << al.w) - 1)) % (1 << al.w), al.w]
                benign = [[rng.choice(["ule", "uge"]), v_, ["bvv", rng.choice([0, (1 << al.w) - 1]), al.w]] if rng.random() < 0.5 else ["ne", ["add", v_, ["bvv", j_, al.w]], ["bvv", 0, al.w]] for j_, v_ in enumerate((vs_[1:] if al.nvars > 1 else vs_) * 3)]
                seq = benign[: rng.choice([4, 5, 6])] + [["eq", vs_[0], k1], ["eq", vs_[0], k2]]
                if k1[1] != k2[1]:
                    other_ = run.b(al.v(1 % al.nvars))

                    def first_answer(sv, which):
                        try:
                            if which == 0:
                                return sv.satisfiable()
                            if which == 1:
                                return len(sv.eval(other_, 1))
                            if which == 2:
                                return sv.solution(other_, 1)
                            return sv.satisfiable(extra_constraints=[other_ != 0])
                        except claripy.errors.UnsatError:
                            return "unsat"
                        except claripy.errors.ClaripyError as ex_:  # (a frontend that cannot answer: the copy cannot either)
                            return "raised:" + type(ex_).__name__

                    # every question is the first thing a fresh original and a fresh unpickled copy are asked
                    for which in range(4):
                        pc = cls(track=True) if track else cls()
                        for c_ in seq:
                            pc.add([run.b(c_)])
                        qc = pickle.loads(pickle.dumps(pc, -1))
                        a1, a2 = first_answer(pc, which), first_answer(qc, which)
                        res.count("pickled_before_first_query")
                        if a1 != a2:
                            run.viol({"op": "first-question", "which": which}, "unpickled-solver-answers-differ-from-original", original=a1, unpickled=a2, constraints=seq, scenario="pickled before the first query")
                            break
                        keep += [pc, qc]
            if not run.failed and it % 3 == 1:
                # a solver and a copy of it stored in one pickle (what a program state with several paths does): the
                # two that come back are as independent of each other as the two that went in
                pa = cls(track=True) if track else cls()
                x_, y_ = run.b(al.v(0)), run.b(al.v(1 % al.nvars))
                base_cons = [[rng.choice(["ult", "ugt", "ne"]), al.v(0), al.k()], [rng.choice(["ule", "uge", "ne"]), al.v(1 % al.nvars), al.k()]]
                pa.add([run.b(c_) for c_ in base_cons])
                if rng.random() < 0.5:
                    try:
                        pa.eval(x_, 2)
                    except claripy.errors.ClaripyError:
                        pass
                pb = pa.branch()
                qa, qb = pickle.loads(pickle.dumps((pa, pb), -1))
                more = [rng.choice(["ult", "ugt", "eq"]), al.v(0), al.k()]
                before = api.probe(qb, [al.v(0), al.v(1 % al.nvars)], [], run.b)
                want = api.probe(pb, [al.v(0), al.v(1 % al.nvars)], [], run.b)
                try:
                    qa.add([run.b(more)])
                    pa.add([run.b(more)])
                except claripy.errors.ClaripyError:
                    pass
                after = api.probe(qb, [al.v(0), al.v(1 % al.nvars)], [], run.b)
                res.count("pickled_together_pairs")
                if before != want or after != want:
                    run.viol({"op": "probe"}, "solvers-pickled-together-are-not-independent-afterwards", constraints=base_cons, added_to_the_other=more, original_copy=want, unpickled_copy_before=before, unpickled_copy_after=after)
                keep += [pa, pb, qa, qb]
        except Exception as ex:  # noqa: BLE001
            res.violation({"kind": "pickle", "what": "history-raised", "config": run.cfg, "observed": repr(ex)[:300], "tb": traceback.format_exc()[-1500:], "history": run.log[-20:]})
        res.case([run.cfg, [e[2] for e in run.log]], bool(run.live[0].cons))
        del keep[:]


def replacement_store_scenarios(spec, res, rng):
    """A SolverReplacement whose replacements were put in by the user, asked about expressions over the replaced
    variables (which fills its look-up cache), stored and restored; then the same changes of the replacement store on
    the original and on the copy (a replacement overwritten, removed, all cleared, a new one added), the same
    questions after every change: the two must agree, and agree with the value the replacements in force determine."""
    import pickle

    import claripy

    n = max(10, spec["n"])
    for it in range(n):
        w = rng.choice([8, 16, 32])
        m = (1 << w) - 1
        x, y = claripy.BVS("rx", w, explicit_name=True), claripy.BVS("ry", w, explicit_name=True)
        s = claripy.SolverReplacement(auto_replace=rng.random() < 0.3)
        s.add(claripy.ULT(y, 100))
        v0 = rng.randrange(0, 50)
        s.add_replacement(x, claripy.BVV(v0, w))
        k1, k2 = rng.randrange(1, 9), rng.randrange(0, 9)
        exprs = [x + 1, x * k1 + k2, x ^ k2, x + x, claripy.If(x == v0, claripy.BVV(1, w), claripy.BVV(2, w)), x]
        vals = lambda v: [(v + 1) & m, (v * k1 + k2) & m, v ^ k2, (2 * v) & m, 1 if v == v0 else 2, v]  # noqa: E731
        rng.shuffle(exprs_ix := list(range(len(exprs))))
        asked = exprs_ix[: rng.randrange(0, len(exprs) + 1)]
        generations = rng.choice([1, 1, 2])
        t = s
        try:
            for g_ in range(generations):
                if g_ == generations - 1:
                    for i in asked:
                        s.eval(exprs[i], 2)
                        if t is not s:
                            t.eval(exprs[i], 2)
                t = pickle.loads(pickle.dumps(t, -1))
                if generations == 2 and g_ == 0:
                    s = pickle.loads(pickle.dumps(s, -1))
        except claripy.errors.ClaripyError as ex:
            res.count("replacement_store_setup_raised")
            res.setadd("replacement_store_setup_raised", repr(ex)[:100])
            continue
        cur = v0

        def ask(sol):
            out = []
            for e in exprs:
                for q in (lambda: (lambda r_: tuple(sorted(r_)) if len(r_) < 3 else "at-least-3")(sol.eval(e, 3)), lambda: sol.max(e), lambda: sol.min(e)):
                    try:
                        out.append(q())
                    except claripy.errors.ClaripyError as ex:
                        out.append("raised:" + type(ex).__name__)
            return out

        changes = ["none"] + [rng.choice(["overwrite", "overwrite", "remove", "clear", "add-other"]) for _ in range(rng.choice([1, 2, 3]))]
        for ch in changes:
            nv = rng.randrange(50, 90)
            for sol in (s, t):
                if ch == "overwrite":
                    sol.add_replacement(x, claripy.BVV(nv, w))
                elif ch == "remove":
                    sol.remove_replacements({x.hash()})
                elif ch == "clear":
                    sol.clear_replacements()
                elif ch == "add-other":
                    sol.add_replacement(y, claripy.BVV(nv % 100, w))
            if ch in ("overwrite",):
                cur = nv
            elif ch in ("remove", "clear"):
                cur = None
            a1, a2 = ask(s), ask(t)
            res.count("replacement_store_comparisons")
            res.case(["replstore", w, v0, k1, k2, asked, generations, changes], True)
            if a1 != a2:
                res.violation({"kind": "pickle", "what": "unpickled-replacement-solver-differs-after-store-change", "width": w, "initial_replacement": v0, "asked_before_pickling": [repr(exprs[i]) for i in asked], "generations": generations, "changes": changes, "at_change": ch, "original": list(map(repr, a1)), "unpickled": list(map(repr, a2))})
                break
            if isinstance(cur, int):
                want = []
                for v in vals(cur):
                    want += [(v,), v, v]
                if a1 != want:
                    res.violation({"kind": "pickle", "what": "replacement-solver-answer-not-the-replaced-value", "width": w, "replacement_in_force": cur, "changes": changes, "at_change": ch, "observed": list(map(repr, a1)), "expected": list(map(repr, want))})
                    break


def xproc_shard(spec, res, rng):
    """parent side: write pickles + descriptors; child (other hash seed) verifies"""
    import claripy

    from vf.core.runner import PY, ROOT, child_env
    from vf.gen import histories as H

    items = []
    keep = []
    for i in range(spec["n"]):
        fam, d = gen_any(rng, i)
        try:
            e = annotate_det(builder(fam)(d), i)
        except Exception:  # noqa: BLE001
            continue
        if not isinstance(e, claripy.ast.Base):
            continue
        keep.append(e)
        items.append({"t": "expr", "fam": fam, "d": d, "i": i, "p": base64.b64encode(pickle.dumps(e, -1)).decode(), "repr": repr(e)[:200]})
    for j in range(max(8, spec["n"] // 8)):
        cname = CLASSES[j % len(CLASSES)]
        al = H.Alphabet(rng, w=3, nvars=rng.choice([2, 3]), nbools=0)
        s = getattr(claripy, cname)()
        cons = []
        try:
            for _ in range(rng.choice([1, 2, 3])):
                c = al.constraint()
                from vf.gen.build import build

                s.add([build(c)])
                cons.append(c)
            if rng.random() < 0.5:
                try:
                    s.eval(build(al.v(0)), 3)
                except claripy.errors.ClaripyError:
                    pass
            items.append({"t": "solver", "cls": cname, "cons": cons, "vars": al.vars, "x": al.v(0), "y": al.v(1 % al.nvars), "p": base64.b64encode(pickle.dumps(s, -1)).decode()})
        except Exception:  # noqa: BLE001
            continue
    # replacement solvers: what they replace is looked up by the expression's hash, which has to mean the same thing in
    # the process that unpickles them (floats: sorts and rounding modes are arguments of the expression)
    for j in range(6):
        try:
            s = claripy.SolverReplacement() if j % 2 == 0 else claripy.SolverHybrid()
            srt = claripy.FSORT_DOUBLE if j % 3 else claripy.FSORT_FLOAT
            f_ = claripy.FPS(f"rf{j}", srt, explicit_name=True)
            g_ = claripy.FPS(f"rg{j}", srt, explicit_name=True)
            x_ = claripy.BVS(f"rx{j}", 8, explicit_name=True)
            fsum = claripy.fpAdd(claripy.fp.RM.RM_TowardsZero, f_, g_)
            if j % 2 == 0:
                s.add_replacement(f_, claripy.FPV(1.5, srt))
                s.add_replacement(x_, claripy.BVV(7 + j, 8))
                s.add_replacement(fsum, claripy.FPV(4.0, srt))
            else:
                s.add([f_ == claripy.FPV(1.5, srt), x_ == 7 + j])
            exprs = [f_, x_, fsum, x_ + 1]
            expect = []
            for e_ in exprs:
                try:
                    vals_ = tuple(s.eval(e_, 2))
                    # (two values = there are more: which ones come back is the backend's choice, not compared)
                    expect.append(repr(vals_) if len(vals_) < 2 else "several")
                except claripy.errors.ClaripyError as ex_:
                    expect.append("raised:" + type(ex_).__name__)
            items.append({"t": "replsolver", "cls": type(s).__name__, "expect": expect, "p": base64.b64encode(pickle.dumps((s, exprs), -1)).decode()})
            keep.append((s, exprs))
        except Exception as ex_:  # noqa: BLE001
            res.count("replsolver_setup_raised")
            res.setadd("replsolver_setup_raised", repr(ex_)[:120])
    work = os.path.join(ROOT, ".work", PID)
    os.makedirs(work, exist_ok=True)
    path = os.path.join(work, f"xproc{spec['stream']}.json")
    with open(path, "w") as f:
        json.dump(items, f)
    env = child_env({"PYTHONHASHSEED": spec["hashseed"]})
    p = subprocess.run([PY, "-X", "faulthandler", "-m", "vf.props.c18_child", path], cwd=ROOT, env=env, capture_output=True, text=True, timeout=1200)
    out = None
    for line in p.stdout.splitlines()[::-1]:
        if line.startswith("RESULT "):
            out = json.loads(line[7:])
            break
    if p.returncode != 0 or out is None:
        res.violation({"kind": "pickle", "what": "child-process-failed", "rc": p.returncode, "stderr": p.stderr[-2000:]})
        return
    res.count("xproc_children")
    res.count("xproc_exprs", out["exprs"])
    res.count("xproc_solvers", out["solvers"])
    res.count("xproc_replacement_solvers", out.get("replsolvers", 0))
    res.count("xproc_solver_answers_judged", out["answers"])
    res.setadd("child_hashseeds", spec["hashseed"])
    for it in items:
        if it["t"] == "expr":
            res.case(["xproc", it["fam"], it["d"], it["i"] % 7], True)
    for v in out["violations"]:
        res.violation({"kind": "pickle", "hashseed": spec["hashseed"], **v})


def replay(w, res):
    res.inconc("C18 replay: re-run the shard kind named in the witness")

