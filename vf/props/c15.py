"""C15 — merge, combine and split have exactly their documented meaning."""
from __future__ import annotations

import collections
import random
import traceback

PID = "C15"
LEVEL = "exploration"
RULE = (
    "a case is one merge / merge-with-ancestor / combine / split call on 2..4 solvers produced by random histories "
    "(adds and cache-filling queries), either branched from a common root or built independently, for every frontend "
    "class that implements the operation.  Oracle (variables total <= 13 bits, so model sets are decided by "
    "enumeration): the model set of And(result.constraints) equals the model set of the documented formula - "
    "OR_i(cond_i AND C_i) for merge, ancestor AND OR_i cond_i with an ancestor, AND_j C_j for combine; for split the "
    "parts have pairwise disjoint variable sets, every top-level conjunct of s occurs in the parts, at least once and at most as often as in s (non-composite "
    "classes), the conjunction of the parts is equivalent to the original and every satisfiable part of an exact class "
    "answers eval of one of its variables with values that are solutions of the part; then 6 queries on the result are judged "
    "against the reference over the formula (exact classes), which catches carried-over caches.  Merge conditions are "
    "constants, constraints over the same variables, and guards over a fresh variable.  Non-trivial: at least two "
    "non-empty constraint sets involved; distinct by (operation, class, constraint sets, conditions) hash."
    " Session 4: directed scenarios - simplify/partial add/simplify before the operation, split over bridged groups of four variables, merge/combine of copies sharing an unchecked unsatisfiable group."
)
ASSUMPTIONS = ["claripy's Z3 translation of constraints is trusted here (it is the subject of C01)"]

CLASSES = ["Solver", "SolverCacheless", "SolverComposite", "SolverReplacement", "SolverHybrid", "SolverVSA", "SolverConcrete", "SolverStrings"]
EXACT = {"Solver", "SolverCacheless", "SolverComposite", "SolverStrings", "SolverReplacement", "SolverHybrid"}


def floors(tier):
    return {"judged:merge": 150, "judged:merge_anc": 40, "judged:combine": 150, "judged:split": 150, "result_queries_judged": 400}


def plan(tier, seed):
    q = tier == "quick"
    return [{"kind": "ops", "cls": cls, "stream": i, "n": 90 if q else 700, "env": {"REUSE_Z3_SOLVER": str(i % 2)}} for cls in CLASSES for i in range(2 if q else 6)]


def conj(cons):
    out = []
    for c in cons:
        out.extend(list(c.args) if c.op == "And" else [c])
    return out


def run_shard(spec, res):
    import claripy
    import z3

    from vf.gen import histories as H
    from vf.mon import api, sem
    from vf.ref import refsolver, z3ref

    rng = random.Random(f"{spec['seed']}:{PID}:{spec['cls']}:{spec.get('stream')}")
    cls = getattr(claripy, spec["cls"])
    cname = spec["cls"]
    cfg = {"cls": cname, "reuse": int(spec["env"]["REUSE_Z3_SOLVER"])}
    exact = cname in EXACT
    tmo = 3000

    def models_of_claripy(uni, constraints):
        """model set of a list of claripy constraints: via Z3 equivalence with an enumerated reference is too slow;
        evaluate claripy's Z3 translation on every assignment instead"""
        c = z3ref.ctx()
        T = z3.And(*[z3.BoolVal(True, ctx=c)] + [sem.claripy_z3(x) for x in constraints])
        return T

    for it in range(spec["n"]):
        al = H.Alphabet(rng, w=3, nvars=rng.choice([2, 3]), nbools=0)
        uni_vars = dict(al.vars)
        uni_vars["guard3"] = ("bv", 3)
        keep = []
        run = api.Run(res, uni_vars, cls, PID, mode="exact" if exact else "none", cfg=cfg, keep=keep)
        try:
            # build 2..4 solvers: a root history, then branches and/or independent solvers
            k = rng.choice([2, 2, 3, 4])
            for _ in range(rng.choice([0, 1, 2])):
                run.step({"op": "add", "s": 0, "cons": [al.constraint()]})
            if rng.random() < 0.5:
                run.step(H.query_step(al, rng, 0, ops=["eval", "max", "min", "satisfiable"], p_extra=0.0))
            anc_idx = None
            if rng.random() < 0.6:
                run.step({"op": "branch", "s": 0})  # keep index 1 as the untouched common ancestor
                anc_idx = 1
            members = [0]
            while len(members) < k:
                if rng.random() < 0.7:
                    run.step({"op": "branch", "s": 0})
                    members.append(len(run.live) - 1)
                else:
                    run.live.append(api.Live(cls(), [], label=f"s{len(run.live)}"))
                    members.append(len(run.live) - 1)
                    anc_idx = None if rng.random() < 0.5 else anc_idx
            for m in members:
                for _ in range(rng.choice([0, 1, 1, 2])):
                    run.step({"op": "add", "s": m, "cons": [al.constraint()]})
                if rng.random() < 0.4:
                    run.step(H.query_step(al, rng, m, ops=["eval", "max", "min", "satisfiable", "solution"], p_extra=0.2))
            directed_combine = it % 6 == 5
            if directed_combine:
                # independent solvers whose cached models disagree on a variable the receiver does not mention: the
                # receiver is only about x, two others are about y (y small / y large), every one has solved already
                run = api.Run(res, uni_vars, cls, PID, mode="exact" if exact else "none", cfg=cfg, keep=keep)
                x_, y_ = al.v(0), al.v(1 % al.nvars)
                m_ = (1 << al.w) - 1
                lo_, hi_ = rng.randrange(1, m_), rng.randrange(1, m_)
                members = [0]
                run.step({"op": "add", "s": 0, "cons": [[rng.choice(["ult", "ugt", "ne"]), x_, al.k()]]})
                for cons_ in ([["ult", y_, ["bvv", min(lo_, hi_) or 1, al.w]]], [["uge", y_, ["bvv", max(lo_, hi_), al.w]]], [["ne", y_, al.k()]])[: rng.choice([2, 3])]:
                    run.live.append(api.Live(cls(), [], label=f"s{len(run.live)}"))
                    members.append(len(run.live) - 1)
                    run.step({"op": "add", "s": members[-1], "cons": cons_})
                for m in members:
                    run.step({"op": rng.choice(["eval", "max", "min", "satisfiable"]), "s": m, "e": y_ if m else x_, "n": rng.choice([1, 2]), "signed": False, "extra": []})
                anc_idx = None
                res.count("directed_combine_cases")
            directed_simplify = it % 6 == 4
            if directed_simplify:
                # constraints over separate variables, simplified, then more constraints on only some of the variables
                # and simplified again (explicitly, or by the queries that simplify first): what the solver lists as its
                # constraints afterwards is what combine / merge / split work from
                run = api.Run(res, uni_vars, cls, PID, mode="exact" if exact else "none", cfg=cfg, keep=keep)
                x_, y_ = al.v(0), al.v(1 % al.nvars)
                cmp_ = lambda v_: [rng.choice(["ult", "ugt", "ne", "ule", "uge"]), v_, ["bvv", rng.randrange(1, (1 << al.w) - 1), al.w]]  # noqa: E731
                simp_ = lambda: run.step(rng.choice([{"op": "simplify", "s": 0}, {"op": "max", "s": 0, "e": x_, "signed": False, "extra": []}, {"op": "min", "s": 0, "e": y_, "signed": False, "extra": []}, {"op": "eval", "s": 0, "e": x_, "n": 3, "extra": []}]))  # noqa: E731
                run.step({"op": "add", "s": 0, "cons": [cmp_(x_)]})
                run.step({"op": "add", "s": 0, "cons": [cmp_(y_)]})
                simp_()
                for _ in range(rng.choice([1, 2, 3])):
                    run.step({"op": "add", "s": 0, "cons": [cmp_(rng.choice([x_, y_]))]})
                    simp_()
                    if rng.random() < 0.4:
                        run.step({"op": "simplify", "s": 0})
                members = [0]
                for _ in range(rng.choice([1, 2])):
                    run.live.append(api.Live(cls(), [], label=f"s{len(run.live)}"))
                    members.append(len(run.live) - 1)
                    run.step({"op": "add", "s": members[-1], "cons": [cmp_(rng.choice([x_, y_]))]})
                if rng.random() < 0.5:
                    members.reverse()  # the simplified solver as one of the others
                anc_idx = None
                res.count("directed_simplify_cases")
            directed_split = it % 12 == 3
            if directed_split:
                # five variables: groups of related variables are formed first, then constraints bridge them (in every
                # order): split must end up with parts that share no variable
                al = H.Alphabet(rng, w=3, nvars=4, nbools=0)
                uni_vars = dict(al.vars)
                run = api.Run(res, uni_vars, cls, PID, mode="exact" if exact else "none", cfg=cfg, keep=keep)
                vs_ = [al.v(i) for i in range(4)]
                rng.shuffle(vs_)
                rel = lambda a_, b_: [rng.choice(["ult", "ule", "ne", "uge"]), a_, b_]  # noqa: E731
                links = [rel(vs_[0], vs_[1]), rel(vs_[2], vs_[3]), rel(vs_[1], vs_[2])]
                if rng.random() < 0.5:
                    links.append([rng.choice(["ult", "ugt"]), vs_[3], ["bvv", rng.randrange(1, 6), 3]])
                order = links[:]
                if rng.random() < 0.7:
                    rng.shuffle(order)
                for c_ in order:
                    if rng.random() < 0.7:
                        run.step({"op": "add", "s": 0, "cons": [c_]})
                    else:
                        run.step({"op": "add", "s": 0, "cons": [c_, rel(rng.choice(vs_), rng.choice(vs_))]})
                    if rng.random() < 0.2:
                        run.step({"op": rng.choice(["satisfiable", "simplify"]), "s": 0, "extra": []})
                members = [0]
                anc_idx = None
                res.count("directed_split_cases")
            directed_hybrid_split = it % 12 == 7 and cname == "SolverHybrid"
            if directed_hybrid_split:
                # one group the approximate half can see through (a value pinned and bounded away from it), one harmless
                run = api.Run(res, uni_vars, cls, PID, mode="exact" if exact else "none", cfg=cfg, keep=keep)
                x_, y_ = al.v(0), al.v(1 % al.nvars)
                hi_ = rng.randrange(3, 8)
                pair_ = rng.choice([[["eq", y_, ["bvv", hi_, al.w]], ["ule", y_, ["bvv", hi_ - 2, al.w]]], [["eq", y_, ["bvv", hi_, al.w]], ["eq", y_, ["bvv", hi_ - 1, al.w]]], [["uge", y_, ["bvv", hi_, al.w]], ["eq", y_, ["bvv", hi_ - 2, al.w]]]])
                run.step({"op": "add", "s": 0, "cons": [["ule", x_, ["bvv", rng.randrange(1, 7), al.w]]]})
                for c_ in pair_:
                    run.step({"op": "add", "s": 0, "cons": [c_]})
                members = [0]
                anc_idx = None
                res.count("directed_hybrid_split_cases")
            directed_unsat_child = it % 12 == 9
            if directed_unsat_child:
                # a contradiction that only the backend can see, in constraints over x alone, never asked about; copies
                # that differ in y only; merged without the ancestor
                run = api.Run(res, uni_vars, cls, PID, mode="exact" if exact else "none", cfg=cfg, keep=keep)
                x_, y_ = al.v(0), al.v(1 % al.nvars)
                run.step({"op": "add", "s": 0, "cons": [rng.choice([["eq", ["mul", x_, x_], ["bvv", 2, al.w]], ["eq", ["mul", x_, ["add", x_, ["bvv", 1, al.w]]], ["bvv", 1, al.w]], ["ult", ["or", x_, ["bvv", 4, al.w]], ["bvv", 4, al.w]]])]})
                run.step({"op": "add", "s": 0, "cons": [["ule", y_, ["bvv", 6, al.w]]]})
                members = [0]
                for _ in range(rng.choice([1, 2])):
                    run.step({"op": "branch", "s": 0})
                    members.append(len(run.live) - 1)
                for m in members:
                    run.step({"op": "add", "s": m, "cons": [[rng.choice(["ne", "ugt", "ult"]), y_, ["bvv", rng.randrange(1, 6), al.w]]]})
                anc_idx = None
                res.count("directed_unsat_child_cases")
            if run.failed:
                continue
            if any(run.live[m].tainted for m in members) or (anc_idx is not None and run.live[anc_idx].tainted):
                res.count("skipped_add_raised_in_setup")
                continue
            op = rng.choice(["merge", "merge", "merge_anc", "combine", "combine", "split", "split"])
            if directed_combine:
                op = "combine"
            if directed_split or directed_hybrid_split:
                op = "split"
            if directed_unsat_child:
                op = rng.choice(["merge", "merge", "combine"])
            if directed_simplify:
                op = rng.choice(["combine", "combine", "merge", "split"])
                if op == "split" and members[0] != 0:
                    members.reverse()
            if op == "merge_anc" and anc_idx is None:
                op = "merge"
            lives = [run.live[m] for m in members]
            base = lives[0]
            c = z3ref.ctx()
            TRUE = z3.BoolVal(True, ctx=c)

            def R_of(descs):
                return z3.And(*[TRUE] + [z3ref.term(d) for d in descs])

            nontriv = sum(1 for lv in lives if lv.cons) >= 2
            if op in ("merge", "merge_anc"):
                conds_d = [rng.choice([["boolv", True], ["boolv", True], al.constraint(), ["eq", ["bvs", "guard3", 3], ["bvv", i, 3]], ["boolv", False]]) for i in range(len(lives))]
                if directed_unsat_child:
                    conds_d = [["boolv", True] if rng.random() < 0.6 else ["eq", ["bvs", "guard3", 3], ["bvv", i, 3]] for i in range(len(lives))]
                conds = [run.b(d) for d in conds_d]
                if op == "merge_anc":
                    anc = run.live[anc_idx]
                    flag, merged = base.solver.merge([lv.solver for lv in lives[1:]], conds, common_ancestor=anc.solver)
                    spec_cons = list(anc.cons) + [["bor", *conds_d] if len(conds_d) > 1 else conds_d[0]]
                else:
                    flag, merged = base.solver.merge([lv.solver for lv in lives[1:]], conds)
                    opts = [["band", cd, *lv.cons] if lv.cons else cd for cd, lv in zip(conds_d, lives)]
                    spec_cons = [["bor", *opts] if len(opts) > 1 else opts[0]]
                result = merged
                res.count("judged:" + op)
                res.case([op, cname, [lv.cons for lv in lives], conds_d, anc_idx is not None and op == "merge_anc"], nontriv)
                T = models_of_claripy(run.uni, result.constraints)
                extra_ok = True
                if cname == "SolverComposite" and getattr(result, "_unsat", False):
                    T = z3.BoolVal(False, ctx=c)
                st, wit = z3ref.equivalent(T, R_of(spec_cons), timeout_ms=tmo, rng=rng)
                if st in ("neq", "sort"):
                    res.violation({"kind": "setop", "what": f"{op}-model-set-differs", "config": cfg, "constraint_sets": [lv.cons for lv in lives], "conditions": conds_d, "ancestor": run.live[anc_idx].cons if op == "merge_anc" else None, "result_constraints": [repr(x)[:160] for x in result.constraints], "assignment": wit})
                    continue
            elif op == "combine":
                result = base.solver.combine([lv.solver for lv in lives[1:]])
                spec_cons = [d for lv in lives for d in lv.cons]
                res.count("judged:combine")
                res.case([op, cname, [lv.cons for lv in lives]], nontriv)
                T = models_of_claripy(run.uni, result.constraints)
                if cname == "SolverComposite" and getattr(result, "_unsat", False):
                    T = z3.BoolVal(False, ctx=c)
                st, wit = z3ref.equivalent(T, R_of(spec_cons), timeout_ms=tmo, rng=rng)
                if st in ("neq", "sort"):
                    res.violation({"kind": "setop", "what": "combine-model-set-differs", "config": cfg, "constraint_sets": [lv.cons for lv in lives], "result_constraints": [repr(x)[:160] for x in result.constraints], "assignment": wit})
                    continue
            else:
                s = base.solver
                before = list(s.constraints)
                parts = s.split()
                keep.append(parts)
                res.count("judged:split")
                res.case([op, cname, base.cons], bool(base.cons))
                res.count("split_parts", len(parts))
                varsets = [set().union(*[x.variables for x in p.constraints]) if p.constraints else set() for p in parts]
                for i in range(len(parts)):
                    for j in range(i + 1, len(parts)):
                        if varsets[i] & varsets[j]:
                            res.violation({"kind": "setop", "what": "split-parts-share-variables", "config": cfg, "constraints": base.cons, "parts": [[repr(x)[:120] for x in p.constraints] for p in parts], "shared": sorted(varsets[i] & varsets[j])})
                            break
                if cname == "SolverHybrid":
                    # each part has an approximate half of its own: it may only know the part's constraints - a part whose
                    # constraints are satisfiable must not be called unsatisfiable by it
                    for p_ in parts:
                        ok_, _m = z3ref.is_sat([sem.claripy_z3(x) for x in p_.constraints], timeout_ms=tmo) if p_.constraints else (True, None)
                        if ok_ is not True:
                            continue
                        res.count("hybrid_parts_asked_approximately")
                        try:
                            ans_ = p_.satisfiable(exact=False)
                        except claripy.errors.ClaripyError:
                            continue
                        if ans_ is False:
                            res.violation({"kind": "setop", "what": "split-part-approximately-unsatisfiable-although-its-constraints-are-satisfiable", "config": cfg, "constraints": base.cons, "part": [repr(x)[:120] for x in p_.constraints]})
                            break
                T = z3.And(*[TRUE] + [sem.claripy_z3(x) for p in parts for x in p.constraints])
                S = models_of_claripy(run.uni, before)
                if cname == "SolverComposite" and getattr(s, "_unsat", False):
                    S = z3.BoolVal(False, ctx=c)
                st, wit = z3ref.equivalent(T, S, timeout_ms=tmo, rng=rng)
                if st in ("neq", "sort"):
                    res.violation({"kind": "setop", "what": "split-conjunction-differs", "config": cfg, "constraints": base.cons, "before": [repr(x)[:120] for x in before], "parts": [[repr(x)[:120] for x in p.constraints] for p in parts], "assignment": wit})
                st2, wit2 = z3ref.equivalent(S, R_of(base.cons), timeout_ms=tmo, rng=rng)
                if st2 in ("neq", "sort") and exact:
                    res.violation({"kind": "setop", "what": "constraints-differ-from-added", "config": cfg, "constraints": base.cons, "before": [repr(x)[:120] for x in before], "assignment": wit2})
                if cname != "SolverComposite":
                    # a literal True conjunct carries no constraint; frontends that filter concrete constraints drop it
                    want = collections.Counter(x.hash() for x in conj(before) if x is not claripy.true())
                    got = collections.Counter(x.hash() for p in parts for x in conj(p.constraints) if x is not claripy.true())
                    # "every conjunct of s exactly once": nothing lost, nothing invented, nothing multiplied.  A conjunct
                    # that s itself holds twice (once as a constraint, once inside an And) may come back once: add()
                    # de-duplicates when a part is filled - so 1 <= occurrences in parts <= occurrences in s
                    if set(want) != set(got) or any(not 1 <= got[h] <= want[h] for h in want):
                        res.violation({"kind": "setop", "what": "split-conjunct-multiset-differs", "config": cfg, "constraints": base.cons, "before": [repr(x)[:120] for x in before], "parts": [[repr(x)[:120] for x in p.constraints] for p in parts]})
                if exact:
                    # (last: eval adds constraints to the part)  the parts are usable solvers: a part whose constraints are satisfiable yields a value for one of
                    # its own variables (regression for the fixed finding split-discards-trivial-model: the part
                    # [a == 0] answered eval(a, 2) with ())
                    for p in parts:
                        leaves = [x for cn in p.constraints for x in cn.leaf_asts() if x.op == "BVS"]
                        if not leaves:
                            continue
                        P = z3.And(*[TRUE] + [sem.claripy_z3(x) for x in p.constraints])
                        chk = z3.Solver(ctx=c)
                        chk.set("timeout", tmo)
                        chk.add(P)
                        if chk.check() != z3.sat:
                            continue
                        v = leaves[0]
                        try:
                            got = p.eval(v, 2)
                        except claripy.errors.ClaripyError as ex:
                            res.count("split_part_eval_raised:" + type(ex).__name__)
                            continue
                        res.count("judged:split_part_eval")
                        if len(got) == 0:
                            res.violation({"kind": "setop", "what": "split-part-eval-empty-although-satisfiable", "config": cfg, "constraints": base.cons, "part": [repr(x)[:120] for x in p.constraints], "variable": repr(v)})
                            break
                        for val in got:
                            chk.push()
                            chk.add(sem.claripy_z3(v) == z3.BitVecVal(val, v.length, ctx=c))
                            ok = chk.check()
                            chk.pop()
                            if ok == z3.unsat:
                                res.violation({"kind": "setop", "what": "split-part-eval-value-not-a-solution", "config": cfg, "constraints": base.cons, "part": [repr(x)[:120] for x in p.constraints], "variable": repr(v), "observed": val})
                                break
                continue
            # queries on the merged / combined solver against the documented formula
            if exact:
                run.live.append(api.Live(result, spec_cons, label="result"))
                ridx = len(run.live) - 1
                for _ in range(6):
                    run.step(H.query_step(al, rng, ridx, p_extra=0.25))
                    res.count("result_queries_judged")
                    if run.failed:
                        break
        except claripy.errors.ClaripyError as e:
            if exact:
                res.violation({"kind": "setop", "what": "operation-raised", "config": cfg, "observed": repr(e)[:300], "tb": traceback.format_exc()[-1500:], "history": run.log[-20:]})
            else:
                res.count("raised_in_approximate_class:" + type(e).__name__)
        except Exception as e:  # noqa: BLE001
            if exact:
                res.violation({"kind": "setop", "what": "operation-raised-non-claripy", "config": cfg, "observed": repr(e)[:300], "tb": traceback.format_exc()[-1500:], "history": run.log[-20:]})
            else:
                res.count("raised_other_in_approximate_class:" + type(e).__name__)
                res.setadd("approximate_class_exceptions", f"{cname}: {e!r}"[:160])


def replay(w, res):
    res.inconc("C15 replay: re-run the shard for the class named in the witness")
