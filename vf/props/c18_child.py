"""Child side of the cross-process pickle check (fresh interpreter, other PYTHONHASHSEED)."""
from __future__ import annotations

import base64
import json
import logging
import pickle
import sys
import traceback


def main(path):
    import claripy

    logging.getLogger("claripy").setLevel(logging.CRITICAL)
    from vf.mon import sem
    from vf.mon.newmon import akey
    from vf.props import c18
    from vf.ref import refsolver, z3ref

    items = json.load(open(path))
    out = {"exprs": 0, "solvers": 0, "answers": 0, "violations": []}

    def V(**kw):
        if len(out["violations"]) < 25:
            out["violations"].append(kw)

    # unpickle everything *first* (nothing pre-built in this process), then rebuild independently
    loaded = []
    for it in items:
        try:
            loaded.append(pickle.loads(base64.b64decode(it["p"])))
        except Exception as e:  # noqa: BLE001
            loaded.append(e)
    for it, obj in zip(items, loaded):
        if isinstance(obj, Exception):
            V(what="unpickling-raised-in-fresh-process", item=it.get("d") or it.get("cls"), observed=repr(obj)[:300])
            continue
        if it["t"] == "expr":
            out["exprs"] += 1
            try:
                fresh = c18.annotate_det(c18.builder(it["fam"])(it["d"]), it["i"])
            except Exception as e:  # noqa: BLE001
                V(what="rebuild-raised", case=it["d"], observed=repr(e)[:200])
                continue
            if obj is fresh:
                continue  # identical object: structurally equal by hash-consing
            # not the same object: report how they differ
            diff = structural_diff(obj, fresh, akey)
            eq = None
            try:
                st, wit = z3ref.equivalent(sem.claripy_z3(obj), sem.claripy_z3(fresh), timeout_ms=3000)
                eq = st
            except Exception as e:  # noqa: BLE001
                eq = "not-comparable:" + type(e).__name__
            V(what="unpickled-expression-differs-from-independent-rebuild", family=it["fam"], case=it["d"], parent_repr=it["repr"], observed=[repr(obj)[:160], repr(fresh)[:160]], difference=diff, z3=eq)
        elif it["t"] == "replsolver":
            out["replsolvers"] = out.get("replsolvers", 0) + 1
            s_, exprs = obj
            got = []
            for e_ in exprs:
                try:
                    vals_ = tuple(s_.eval(e_, 2))
                    got.append(repr(vals_) if len(vals_) < 2 else "several")
                except claripy.errors.ClaripyError as ex_:
                    got.append("raised:" + type(ex_).__name__)
            out["answers"] += len(got)
            if got != it["expect"]:
                V(what="unpickled-replacement-solver-answers-differ-in-fresh-process", cls=it["cls"], observed=got, expected=it["expect"], exprs=[repr(e_)[:80] for e_ in exprs])
        else:
            out["solvers"] += 1
            try:
                judge_solver(it, obj, claripy, refsolver, out, V)
            except Exception as e:  # noqa: BLE001
                V(what="unpickled-solver-raised", cls=it["cls"], constraints=it["cons"], observed=repr(e)[:300], tb=traceback.format_exc()[-1200:])
    print("RESULT " + json.dumps(out, default=repr))


def structural_diff(a, b, akey):
    import claripy

    if type(a) is not type(b):
        return f"class {type(a).__name__} vs {type(b).__name__}"
    if a.op != b.op:
        return f"op {a.op} vs {b.op}"
    if a.length != b.length:
        return f"length {a.length} vs {b.length}"
    if sorted(map(repr, (akey(x)[:4] for x in a.annotations))) != sorted(map(repr, (akey(x)[:4] for x in b.annotations))):
        return f"annotations {a.annotations!r} vs {b.annotations!r}"
    if len(a.args) != len(b.args):
        return "arity"
    for x, y in zip(a.args, b.args):
        if isinstance(x, claripy.ast.Base) and isinstance(y, claripy.ast.Base):
            if x is not y:
                return "arg: " + structural_diff(x, y, akey)
        elif akey(x) != akey(y):
            return f"literal {x!r} vs {y!r}"
    return "same structure but different objects (hash-consing key differs)"


def judge_solver(it, s, claripy, refsolver, out, V):
    from vf.gen.build import build
    from vf.ref import bvsem

    exact = it["cls"] in ("Solver", "SolverCacheless", "SolverComposite", "SolverStrings", "SolverReplacement", "SolverHybrid")
    uni = refsolver.Universe({k: tuple(v) for k, v in it["vars"].items()})
    ans = refsolver.Answer(uni, it["cons"])
    x = build(it["x"])
    w = bvsem.width(it["x"])
    # constraints must have survived
    from vf.mon import sem
    from vf.ref import z3ref
    import z3

    T = z3.And(*[z3.BoolVal(True, ctx=z3ref.ctx())] + [sem.claripy_z3(c) for c in s.constraints])
    R = z3.And(*[z3.BoolVal(True, ctx=z3ref.ctx())] + [z3ref.term(c) for c in it["cons"]])
    if it["cls"] != "SolverComposite" or not getattr(s, "_unsat", False):
        st, wit = z3ref.equivalent(T, R, timeout_ms=3000)
        if st in ("neq", "sort"):
            V(what="unpickled-solver-constraints-differ", cls=it["cls"], constraints=it["cons"], observed=[repr(c)[:100] for c in s.constraints], assignment=wit)
            return
    if not exact:
        try:
            s.satisfiable()
            s.eval(x, 3)
        except claripy.errors.ClaripyError:
            pass
        except Exception as e:  # noqa: BLE001
            if "backend_vsa" not in traceback.format_exc():
                V(what="unpickled-solver-raised", cls=it["cls"], constraints=it["cons"], observed=repr(e)[:300], tb=traceback.format_exc()[-800:])
        return
    sat = ans.sat()
    got = s.satisfiable()
    out["answers"] += 1
    if got != sat:
        V(what="unpickled-solver-satisfiable-wrong", cls=it["cls"], constraints=it["cons"], observed=got, expected=sat)
        return
    if not sat:
        return
    vals = ans.values(it["x"])
    ev = s.eval(x, 40)
    out["answers"] += 1
    if sorted(ev) != sorted(vals):
        V(what="unpickled-solver-eval-wrong", cls=it["cls"], constraints=it["cons"], observed=sorted(ev), expected=sorted(vals))
        return
    for op, is_max in (("max", True), ("min", False)):
        got = getattr(s, op)(x) & ((1 << w) - 1)
        out["answers"] += 1
        if got != ans.optimum(it["x"], is_max, False):
            V(what=f"unpickled-solver-{op}-wrong", cls=it["cls"], constraints=it["cons"], observed=got, expected=ans.optimum(it["x"], is_max, False))
            return
    # the copy keeps working: add one more constraint
    y = build(it["y"])
    s.add([x != y])
    ans2 = refsolver.Answer(uni, it["cons"] + [["ne", it["x"], it["y"]]])
    out["answers"] += 1
    if s.satisfiable() != ans2.sat():
        V(what="unpickled-solver-wrong-after-further-add", cls=it["cls"], constraints=it["cons"])


if __name__ == "__main__":
    main(sys.argv[1])
