"""C09 — solver-backed simplification preserves meaning and handles all claripy operators."""
from __future__ import annotations

import random
import traceback

PID = "C09"
LEVEL = "exploration"
RULE = (
    "cases: (expr) every BV/Bool rule template, random typed BV/Bool trees, symbolic FP trees (all FP operators incl. "
    "isNaN/isInf/fpFP/conversions) and string trees, each passed through claripy.simplify(e), backends.z3.simplify(e) "
    "and backends.z3._abstract(backends.z3.convert(e)); (solver) random constraint sets added to every frontend class, "
    "And(constraints) before vs after simplify(); (sweep) for every entry of the reverse operator map that is not "
    "None and is BV/Bool/FP-sorted, a Z3 application of that declaration kind built with z3py at widths 1/8/64, "
    "abstracted and converted back.  Oracle: Z3 equivalence (private context) of the result with the independently "
    "built reference term (descriptor) or with the original Z3 term (sweep, solver); any exception from "
    "claripy.simplify / Solver.simplify is a violation; from the two backend-level entry points only BackendError on "
    "string-sorted input is accepted; a store whose add()/satisfiable() raises before simplify() is called is "
    "counted and not judged.  Substr/IndexOf position constants of symbolic string trees are <= 255 (Z3's sequence "
    "rewriter unrolls over them and exhausts memory).  Non-trivial: operator node present; distinct by (route, descriptor) hash."
    " Session 4 (solver shard): a second round of adds over single variables and another simplify (explicit or by a query)."
)
ASSUMPTIONS = ["equivalence of FP terms that Z3 cannot decide within the timeout is sampled over the hostile FP pool"]


_SMALL_IDX = [8, 16, 33, 64, 255]


def tame_indices(d):
    """Substr/IndexOf position and length constants above 255 are replaced by small ones.

    Z3's sequence rewriter (run by claripy's simplify tactics) unrolls e.g. suffixof(substr(s, K, 4), "?") over the
    constant offset K: measured 5 s / 0.85 GB at K = 1000, > 110 s / > 8 GB at K = 2^16, and the Z3 context stays slow or
    dead afterwards.  That is resource exhaustion inside Z3, which no oracle of C09 judges; the huge index constants
    stay in the C03 workload (concrete folding and solving), where they cost nothing."""
    if not isinstance(d, list) or not d or not isinstance(d[0], str):
        return d
    out = [d[0]] + [tame_indices(x) for x in d[1:]]
    pos = {"ssubstr": (1, 2), "sindexof": (3,)}.get(d[0], ())
    for i in pos:
        x = out[i]
        if isinstance(x, list) and x[0] == "bvv" and x[1] > 255:
            out[i] = ["bvv", _SMALL_IDX[x[1] % len(_SMALL_IDX)], x[2]]
    return out


def floors(tier):
    return {"judged:claripy.simplify": 800, "judged:z3.simplify": 500, "judged:z3.abstract": 500, "judged:solver.simplify": 100, "sweep_kinds_judged": 60, "result_changed_by_simplify": 200}


def plan(tier, seed):
    q = tier == "quick"
    S = [{"kind": "bv", "stream": i, "n": 250 if q else 4000} for i in range(4 if q else 12)]
    S += [{"kind": "tmpl", "stream": i, "n": 1 if q else 12} for i in range(2 if q else 8)]
    S += [{"kind": "fp", "stream": i, "n": 200 if q else 3000} for i in range(2 if q else 8)]
    S += [{"kind": "str", "stream": i, "n": 150 if q else 2000} for i in range(2 if q else 4)]
    S += [{"kind": "solver", "stream": i, "n": 60 if q else 800} for i in range(3 if q else 8)]
    S += [{"kind": "sweep"}]
    return S


def run_shard(spec, res):
    import claripy
    import z3

    from vf.gen import build as bvb
    from vf.gen import exprgen as G
    from vf.gen import fpbuild, strbuild
    from vf.mon import sem
    from vf.props import c02, c03
    from vf.ref import bvsem, fpref, strref, z3ref

    rng = random.Random(f"{spec['seed']}:{PID}:{spec['kind']}:{spec.get('stream')}")
    tmo = 2000 if spec["tier"] == "quick" else 8000
    keep = []
    kind = spec["kind"]

    def judge_routes(fam, d, e, R, hyp=None):
        routes = [("claripy.simplify", lambda: claripy.simplify(e)), ("z3.simplify", lambda: claripy.backends.z3.simplify(e)), ("z3.abstract", lambda: claripy.backends.z3._abstract(claripy.backends.z3.convert(e)))]
        for name, fn in routes:
            try:
                r = fn()
            except claripy.errors.BackendError as ex:
                if fam == "str" and name != "claripy.simplify":
                    res.count("accepted_backenderror_on_string:" + name)
                    continue
                res.case([name, d], True)
                res.violation({"kind": "roundtrip", "route": name, "what": "raised", "family": fam, "case": d, "observed": repr(ex)[:300]})
                continue
            except Exception as ex:  # noqa: BLE001
                res.case([name, d], True)
                res.violation({"kind": "roundtrip", "route": name, "what": "raised", "family": fam, "case": d, "observed": repr(ex)[:300], "tb": traceback.format_exc()[-1200:]})
                continue
            keep.append(r)
            res.case([name, d], True)
            res.count("judged:" + name)
            if r is not e:
                res.count("result_changed_by_simplify")
            if type(r) is not type(e) or r.length != e.length:
                res.violation({"kind": "roundtrip", "route": name, "what": "sort-changed", "family": fam, "case": d, "observed": [type(r).__name__, r.length], "expected": [type(e).__name__, e.length]})
                continue
            try:
                T = sem.claripy_z3(r)
            except claripy.errors.ClaripyError as ex:
                res.violation({"kind": "roundtrip", "route": name, "what": "result-not-convertible", "family": fam, "case": d, "result": repr(r)[:300], "observed": repr(ex)[:300]})
                continue
            if T.eq(R):
                res.count("z3_status:structural")
                continue
            st, wit = z3ref.equivalent(T, R, timeout_ms=tmo, rng=rng, hyp=hyp)
            res.count("z3_status:" + st)
            if st in ("neq", "sort"):
                res.violation({"kind": "roundtrip", "route": name, "what": "not-equivalent", "family": fam, "case": d, "result": repr(r)[:300], "assignment": wit})
            elif st == "sampled" and fam == "fp":
                bad = c02.sample_fp(d, T, R, hyp[0] if hyp else z3.BoolVal(True, ctx=z3ref.ctx()), rng)
                if bad:
                    res.violation({"kind": "roundtrip", "route": name, "what": "not-equivalent-sampled", "family": fam, "case": d, "result": repr(r)[:300], **bad})

    if kind in ("bv", "tmpl"):
        def cases():
            if kind == "bv":
                for _ in range(spec["n"]):
                    g = G.Gen(rng, nvars=rng.choice([1, 2, 3]), widths=rng.choice([[1, 2, 3, 4], [8, 16], [32, 64], [7, 13, 65]]), surface=False)
                    yield g.any(rng.choice([1, 2, 3, 4]))
            else:
                for _ in range(spec["n"]):
                    yield from G.templates(rng)

        for d in cases():
            if not bvb.well_formed(d) or not bvsem.variables(d):
                continue
            try:
                e = bvb.build(d)
            except claripy.errors.ClaripyError:
                continue
            if e.is_leaf():
                continue
            keep.append(e)
            judge_routes("bv", d, e, z3ref.term(d))
            if len(keep) > 3000:
                del keep[:1500]
    elif kind == "fp":
        # comparisons against the special values (Z3's rewriter turns e.g. x < +oo into Not(x = NaN) and Not(x = +oo),
        # with SMT equality, which is not IEEE equality)
        directed = []
        for S_ in "FD":
            x_, y_ = ["fps", "x" + S_, S_], ["fps", "y" + S_, S_]
            eb, sb = (8, 23) if S_ == "F" else (11, 52)
            specials = [((1 << eb) - 1) << sb, (1 << (eb + sb)) | (((1 << eb) - 1) << sb), (((1 << eb) - 1) << sb) | (1 << (sb - 1)), 0, 1 << (eb + sb), 1, (((1 << eb) - 1) << sb) - 1]
            for bits in specials:
                k_ = ["fpv", bits, S_]
                for cmp_ in c02.CMPS:
                    directed += [[cmp_, x_, k_], [cmp_, k_, x_], ["bnot", [cmp_, x_, k_]], [cmp_, ["fpadd", "RNE", x_, y_], k_], ["band", [cmp_, x_, k_], ["bnot", [cmp_, y_, k_]]]]
                directed += [["ite", [rng.choice(c02.CMPS), x_, k_], x_, k_]]
        nstreams = 2 if spec["tier"] == "quick" else 8
        mine = directed[spec["stream"] % nstreams :: nstreams]
        for i in range(spec["n"] + len(mine)):
            if i < len(mine):
                d = mine[i]
            else:
                d = c02.sym_case(rng) if i % 2 else c02.tree_case(rng, rng.choice("FD"), rng.choice([1, 2]), concrete=False)
            if not fpref.has_vars(d):
                continue
            try:
                e = fpbuild.build(d)
            except claripy.errors.ClaripyError:
                continue
            if e.is_leaf():
                continue
            keep.append(e)
            judge_routes("fp", d, e, fpref.term(d), hyp=[fpref.unspecified_guard(d)])
    elif kind == "str":
        for i in range(spec["n"]):
            d0 = c03.rand_tree(rng, 2)
            sym = c03.symbolize(d0, rng)
            if sym is None:
                continue
            d = tame_indices(sym[0])
            try:
                e = strbuild.build(d)
            except Exception:  # noqa: BLE001
                continue
            if e.is_leaf():
                continue
            keep.append(e)
            judge_routes("str", d, e, strref.term(d))
    elif kind == "solver":
        classes = [claripy.Solver, claripy.SolverCacheless, claripy.SolverComposite, claripy.SolverHybrid, claripy.SolverReplacement, claripy.SolverStrings]
        for i in range(spec["n"]):
            cls = classes[i % len(classes)]
            cons_d = []
            if cls is claripy.SolverStrings and i % 2:
                for _ in range(rng.choice([1, 2, 3])):
                    d0 = c03.rand_tree(rng, 1)
                    sym = c03.symbolize(d0, rng)
                    if sym and strref.sort_of(sym[0])[0] == "bool":
                        cons_d.append(("str", tame_indices(sym[0])))
            elif i % 5 == 4:
                for _ in range(rng.choice([1, 2])):
                    d0 = c02.sym_case(rng)
                    if fpref.sort_of(d0)[0] == "bool":
                        cons_d.append(("fp", d0))
            if not cons_d:
                g = G.Gen(rng, nvars=rng.choice([2, 3]), widths=rng.choice([[4], [8], [8, 32]]), surface=False, allow_div=rng.random() < 0.3)
                cons_d = [("bv", g.boolx(rng.choice([1, 2, 3]))) for _ in range(rng.choice([1, 2, 3, 5]))]
            try:
                cons = [{"bv": bvb.build, "fp": fpbuild.build, "str": strbuild.build}[f](d) for f, d in cons_d]
            except Exception:  # noqa: BLE001
                continue
            refs = [{"bv": z3ref.term, "fp": fpref.term, "str": strref.term}[f](d) for f, d in cons_d]
            if i % 4 == 1 and cls not in (claripy.SolverHybrid, claripy.SolverReplacement):
                # some constraints carry annotations (a user annotation, UninitializedAnnotation): simplify() sorts the
                # constraints by their annotations and must not lose any
                from vf.gen import astwork

                for j in range(len(cons)):
                    if rng.random() < 0.5 and isinstance(cons[j], claripy.ast.Base) and cons[j].symbolic:
                        cons[j] = cons[j].annotate(rng.choice([astwork.NE("c"), astwork.ELIM("c"), astwork.REL("c"), claripy.annotation.UninitializedAnnotation()]))
                        res.count("solver_annotated_constraints")
            s = cls()
            is_bv = all(f == "bv" for f, _ in cons_d)
            try:
                # building the store is not what C09 judges: a frontend that cannot take these constraints
                # (add()/satisfiable() raising before simplify() was ever called) is counted and skipped
                s.add(cons)
                sat_before = s.satisfiable() if is_bv and rng.random() < 0.5 else None
                before = list(s.constraints)
            except Exception as ex:  # noqa: BLE001
                res.count("not_judged:store_setup_raised:" + cls.__name__ + ":" + type(ex).__name__)
                continue
            try:
                s.simplify()
                after = list(s.constraints)
                if rng.random() < 0.3:
                    s.simplify()  # second call: skipper / dedup paths
                    after = list(s.constraints)
                sat_after = s.satisfiable() if sat_before is not None else None
            except Exception as ex:  # noqa: BLE001
                res.case(["solver", cls.__name__, cons_d], True)
                res.violation({"kind": "roundtrip", "route": "solver.simplify", "what": "raised", "solver": cls.__name__, "case": cons_d, "observed": repr(ex)[:300], "tb": traceback.format_exc()[-1500:]})
                continue
            keep += before + after
            res.case(["solver", cls.__name__, cons_d], True)
            res.count("judged:solver.simplify")
            res.count("solver_class:" + cls.__name__)
            if sat_before is not None and sat_before != sat_after:
                res.violation({"kind": "roundtrip", "route": "solver.simplify", "what": "satisfiable-changed", "solver": cls.__name__, "case": cons_d, "observed": [sat_before, sat_after]})
            c = z3ref.ctx()
            try:
                Bf = z3.And(*[z3.BoolVal(True, ctx=c)] + [sem.claripy_z3(x) for x in before])
                A = z3.And(*[z3.BoolVal(True, ctx=c)] + [sem.claripy_z3(x) for x in after])
            except claripy.errors.ClaripyError as ex:
                res.violation({"kind": "roundtrip", "route": "solver.simplify", "what": "constraints-not-convertible", "solver": cls.__name__, "case": cons_d, "observed": repr(ex)[:300]})
                continue
            st, wit = z3ref.equivalent(A, Bf, timeout_ms=tmo, rng=rng)
            res.count("z3_status:" + st)
            if st in ("neq", "sort"):
                res.violation({"kind": "roundtrip", "route": "solver.simplify", "what": "model-set-changed", "solver": cls.__name__, "case": cons_d, "before": [repr(x)[:150] for x in before], "after": [repr(x)[:150] for x in after], "assignment": wit})
                continue
            if is_bv and rng.random() < 0.6:
                # second round: one or two more constraints over a single variable each (a solver that keeps its
                # constraints in groups only touches some of the groups), simplified again - explicitly or by a query
                # that simplifies first
                vs_ = sorted(set().union(*[x.variables for x in after])) if after else []
                leaves = {lf.args[0]: lf for x in after for lf in x.leaf_asts() if lf.op == "BVS"}
                if leaves:
                    more = []
                    for _ in range(rng.choice([1, 2])):
                        lf = leaves[rng.choice(sorted(leaves))]
                        more.append(rng.choice([claripy.ULT, claripy.UGE, claripy.SLT, lambda a_, b_: a_ != b_])(lf, claripy.BVV(rng.getrandbits(lf.length), lf.length)))
                    try:
                        s.add(more)
                        if rng.random() < 0.5:
                            try:
                                s.max(leaves[sorted(leaves)[0]])
                            except claripy.errors.UnsatError:
                                pass
                        s.simplify()
                        after2 = list(s.constraints)
                    except Exception as ex:  # noqa: BLE001
                        res.violation({"kind": "roundtrip", "route": "solver.simplify", "what": "raised", "solver": cls.__name__, "case": cons_d, "round": 2, "observed": repr(ex)[:300], "tb": traceback.format_exc()[-1500:]})
                        continue
                    keep += more + after2
                    res.count("judged:solver.simplify:second_round")
                    try:
                        B2 = z3.And(A, *[sem.claripy_z3(x) for x in more])
                        A2 = z3.And(*[z3.BoolVal(True, ctx=c)] + [sem.claripy_z3(x) for x in after2])
                    except claripy.errors.ClaripyError:
                        continue
                    st2, wit2 = z3ref.equivalent(A2, B2, timeout_ms=tmo, rng=rng)
                    if st2 in ("neq", "sort"):
                        res.violation({"kind": "roundtrip", "route": "solver.simplify", "what": "model-set-changed", "solver": cls.__name__, "case": cons_d, "round": 2, "added": [repr(x)[:120] for x in more], "before": [repr(x)[:150] for x in after], "after": [repr(x)[:150] for x in after2], "assignment": wit2})
    elif kind == "sweep":
        sweep(res, rng, tmo)


def sweep(res, rng, tmo):
    """every reverse-map entry that is not None and BV/Bool/FP sorted"""
    import claripy
    import z3

    from claripy.backends import backend_z3 as bz
    from vf.ref import z3ref

    B = claripy.backends.z3
    ctx = B._context
    made = {}

    def add(kind, *terms):
        made.setdefault(kind, []).extend(terms)

    for w in (1, 8, 64):
        a, b, c = z3.BitVec(f"sa{w}", w, ctx=ctx), z3.BitVec(f"sb{w}", w, ctx=ctx), z3.BitVec(f"sc{w}", w, ctx=ctx)
        k = z3.BitVecVal(3 % (1 << w) or 1, w, ctx=ctx)
        add("Z3_OP_BADD", a + b, a + b + c)
        add("Z3_OP_BSUB", a - b)
        add("Z3_OP_BMUL", a * b, a * b * c)
        add("Z3_OP_BAND", a & b)
        add("Z3_OP_BOR", a | b)
        add("Z3_OP_BXOR", a ^ b)
        add("Z3_OP_BNOT", ~a)
        add("Z3_OP_BNEG", -a)
        add("Z3_OP_BSHL", a << b)
        add("Z3_OP_BASHR", a >> b)
        add("Z3_OP_BLSHR", z3.LShR(a, b))
        add("Z3_OP_BSDIV", a / b)
        add("Z3_OP_BUDIV", z3.UDiv(a, b))
        add("Z3_OP_BSREM", z3.SRem(a, b))
        add("Z3_OP_BUREM", z3.URem(a, b))
        add("Z3_OP_BSDIV_I", z3.simplify(a / k))
        add("Z3_OP_BUDIV_I", z3.simplify(z3.UDiv(a, k)))
        add("Z3_OP_BSREM_I", z3.simplify(z3.SRem(a, k)))
        add("Z3_OP_BUREM_I", z3.simplify(z3.URem(a, k)))
        add("Z3_OP_CONCAT", z3.Concat(a, b), z3.Concat(a, b, c))
        add("Z3_OP_EXTRACT", z3.Extract(w - 1, 0, a), z3.Extract(w // 2, w // 4, a), z3.Extract(0, 0, a))
        add("Z3_OP_SIGN_EXT", z3.SignExt(3, a))
        add("Z3_OP_ZERO_EXT", z3.ZeroExt(3, a))
        add("Z3_OP_REPEAT", z3.RepeatBitVec(2, a))
        add("Z3_OP_EXT_ROTATE_LEFT", z3.RotateLeft(a, b))
        add("Z3_OP_EXT_ROTATE_RIGHT", z3.RotateRight(a, b))
        add("Z3_OP_EQ", a == b)
        add("Z3_OP_DISTINCT", a != b, z3.Distinct(a, b), z3.Distinct(a, b, c))
        add("Z3_OP_ULT", z3.ULT(a, b))
        add("Z3_OP_ULEQ", z3.ULE(a, b))
        add("Z3_OP_UGT", z3.UGT(a, b))
        add("Z3_OP_UGEQ", z3.UGE(a, b))
        add("Z3_OP_SLT", a < b)
        add("Z3_OP_SLEQ", a <= b)
        add("Z3_OP_SGT", a > b)
        add("Z3_OP_SGEQ", a >= b)
        add("Z3_OP_BNUM", z3.BitVecVal(rng.getrandbits(w), w, ctx=ctx), z3.BitVecVal((1 << w) - 1, w, ctx=ctx))
        add("Z3_OP_ITE", z3.If(a == b, a, c), z3.If(z3.ULT(a, b), a == c, b == c))
        add("Z3_OP_UNINTERPRETED", a)
    add("Z3_OP_BNUM", z3.BitVecVal((1 << 200) - 3, 256, ctx=ctx))
    p, q, r = z3.Bool("sp", ctx=ctx), z3.Bool("sq", ctx=ctx), z3.Bool("sr", ctx=ctx)
    add("Z3_OP_AND", z3.And(p, q), z3.And(p, q, r))
    add("Z3_OP_OR", z3.Or(p, q), z3.Or(p, q, r))
    add("Z3_OP_NOT", z3.Not(p))
    add("Z3_OP_XOR", z3.Xor(p, q))
    add("Z3_OP_IFF", p == q)
    add("Z3_OP_EQ", p == q)
    add("Z3_OP_TRUE", z3.BoolVal(True, ctx=ctx))
    add("Z3_OP_FALSE", z3.BoolVal(False, ctx=ctx))
    add("Z3_OP_UNINTERPRETED", p)
    add("Z3_OP_ITE", z3.If(p, q, r))
    for srt, nm in ((z3.Float32(ctx), "F"), (z3.Float64(ctx), "D")):
        x, y = z3.FP("sx" + nm, srt), z3.FP("sy" + nm, srt)
        n = srt.ebits() + srt.sbits()
        bv = z3.BitVec("sbv" + nm, n, ctx=ctx)
        other = z3.Float64(ctx) if nm == "F" else z3.Float32(ctx)
        for rm in (z3.RNE(ctx), z3.RNA(ctx), z3.RTZ(ctx), z3.RTP(ctx), z3.RTN(ctx)):
            add("Z3_OP_FPA_ADD", z3.fpAdd(rm, x, y))
            add("Z3_OP_FPA_SUB", z3.fpSub(rm, x, y))
            add("Z3_OP_FPA_MUL", z3.fpMul(rm, x, y))
            add("Z3_OP_FPA_DIV", z3.fpDiv(rm, x, y))
            add("Z3_OP_FPA_SQRT", z3.fpSqrt(rm, x))
            add("Z3_OP_FPA_TO_FP", z3.fpFPToFP(rm, x, other), z3.fpSignedToFP(rm, bv, srt))
            add("Z3_OP_FPA_TO_FP_UNSIGNED", z3.fpUnsignedToFP(rm, bv, srt))
            add("Z3_OP_FPA_TO_SBV", z3.fpToSBV(rm, x, z3.BitVecSort(8, ctx)), z3.fpToSBV(rm, x, z3.BitVecSort(64, ctx)))
            add("Z3_OP_FPA_TO_UBV", z3.fpToUBV(rm, x, z3.BitVecSort(8, ctx)), z3.fpToUBV(rm, x, z3.BitVecSort(64, ctx)))
            add({"RNE": "Z3_OP_FPA_RM_NEAREST_TIES_TO_EVEN", "RNA": "Z3_OP_FPA_RM_NEAREST_TIES_TO_AWAY", "RTZ": "Z3_OP_FPA_RM_TOWARD_ZERO", "RTP": "Z3_OP_FPA_RM_TOWARD_POSITIVE", "RTN": "Z3_OP_FPA_RM_TOWARD_NEGATIVE"}[str(rm)[:3]], z3.fpAdd(rm, x, x))
        add("Z3_OP_FPA_TO_FP", z3.fpBVToFP(bv, srt))
        add("Z3_OP_FPA_ABS", z3.fpAbs(x))
        add("Z3_OP_FPA_NEG", z3.fpNeg(x))
        add("Z3_OP_FPA_EQ", z3.fpEQ(x, y))
        add("Z3_OP_FPA_LT", z3.fpLT(x, y))
        add("Z3_OP_FPA_LE", z3.fpLEQ(x, y))
        add("Z3_OP_FPA_GT", z3.fpGT(x, y))
        add("Z3_OP_FPA_GE", z3.fpGEQ(x, y))
        add("Z3_OP_FPA_IS_NAN", z3.fpIsNaN(x))
        add("Z3_OP_FPA_IS_INF", z3.fpIsInf(x))
        add("Z3_OP_FPA_TO_IEEE_BV", z3.fpToIEEEBV(x))
        eb, sb = srt.ebits(), srt.sbits()
        add("Z3_OP_FPA_FP", z3.fpFP(z3.BitVec("ss" + nm, 1, ctx=ctx), z3.BitVec("se" + nm, eb, ctx=ctx), z3.BitVec("sm" + nm, sb - 1, ctx=ctx)))
        add("Z3_OP_FPA_NUM", z3.FPVal(1.5, srt), z3.FPVal(-0.1, srt), z3.fpAdd(z3.RNE(ctx), x, z3.FPVal(2.5, srt)))
        add("Z3_OP_FPA_PLUS_ZERO", z3.fpPlusZero(srt))
        add("Z3_OP_FPA_MINUS_ZERO", z3.fpMinusZero(srt))
        add("Z3_OP_FPA_PLUS_INF", z3.fpPlusInfinity(srt))
        add("Z3_OP_FPA_MINUS_INF", z3.fpMinusInfinity(srt))
        add("Z3_OP_FPA_NAN", z3.fpNaN(srt))
        add("Z3_OP_UNINTERPRETED", x)
        add("Z3_OP_ITE", z3.If(z3.fpLT(x, y), x, y))
    mapped = {k for k, v in bz.op_map.items() if v is not None}
    int_or_internal = {"Z3_OP_ADD", "Z3_OP_SUB", "Z3_OP_MUL", "Z3_OP_DIV", "Z3_OP_IDIV", "Z3_OP_MOD", "Z3_OP_REM", "Z3_OP_GE", "Z3_OP_GT", "Z3_OP_LE", "Z3_OP_LT", "Z3_OP_UMINUS", "Z3_OP_INTERNAL"}
    for kind in sorted(mapped - set(made) - int_or_internal):
        res.setadd("sweep_mapped_kinds_without_a_generator", kind)
    for kind, terms in sorted(made.items()):
        if kind not in mapped:
            res.setadd("sweep_generated_but_unmapped", kind)
            continue
        judged_kind = False
        for t in terms:
            res.case(["sweep", kind, str(t)[:120]], True)
            try:
                ast = B._abstract(t)
                back = B.convert(ast)
            except Exception as ex:  # noqa: BLE001
                res.violation({"kind": "roundtrip", "route": "sweep", "what": "raised", "decl": kind, "term": str(t)[:200], "observed": repr(ex)[:300], "tb": traceback.format_exc()[-1000:]})
                continue
            judged_kind = True
            res.count("judged:sweep")
            T, R = z3ref.import_term(back), z3ref.import_term(t)
            if T.eq(R):
                continue
            st, wit = z3ref.equivalent(T, R, timeout_ms=tmo, rng=rng)
            res.count("z3_status:" + st)
            if st in ("neq", "sort"):
                res.violation({"kind": "roundtrip", "route": "sweep", "what": "not-equivalent", "decl": kind, "term": str(t)[:200], "result": repr(ast)[:200], "assignment": wit})
        if judged_kind:
            res.count("sweep_kinds_judged")


def replay(w, res):
    res.inconc("C09 replay: re-run the shard kind named in the witness")
