"""C19 — garbage collection stays disabled exactly while Z3 calls are in progress."""
from __future__ import annotations

import itertools
import random

PID = "C19"
LEVEL = "exploration"
STRICT_WORKER_DEATH = True  # a crash of the worker is an observation about this property
RULE = (
    "a case is one complete schedule of 2..4 real threads running the real _enter_z3 / _exit_z3 / condom-wrapped "
    "callables of claripy.backends.backend_z3 under the deterministic line-level scheduler M-sched (sys.monitoring "
    "LINE events on exactly those code objects park the running thread after every statement; _gc_lock is replaced "
    "by a scheduler-aware lock and backend_z3.gc by a model collector flag).  Per thread a balanced program over "
    "{enter, exit, condom call (returning, raising z3.Z3Exception, nested)}; collector initially enabled and "
    "disabled; optionally a first call and an application gc.disable()/enable() before the threads start.  Oracle "
    "after every step: in-progress count >= 0 and >= the number of calls in progress, no 'underflow' log record, and "
    "collector disabled whenever a call is in progress; at quiescence: count == 0, no thread raised, collector flag "
    "equal to its value before the first call of the phase.  Schedules: depth-first search over all scheduling "
    "decisions with state caching (state = per-thread program counter, last line, lock wait, calls in progress; "
    "counter, saved flag, collector flag, lock owner), exhaustive for every listed program tuple; seeded random "
    "schedules for larger programs; plus real-thread runs of solver queries with a passive monitor at every exit "
    "of the guard (collector disabled, count >= 1, read under the guard's own lock).  Non-trivial: the schedule has "
    "at least one decision with two runnable threads; distinct by (programs, schedule) hash."
    " Session 4: 'leave' shard - every way a call can be left (return, solver error, callback raising, callback changing the SIGINT handler, nested call left by exception, cache evictions during the call, backend calls that raise), state checked after each."
)
ASSUMPTIONS = [
    "preemption happens between statements of the three guarded functions (CPython switches threads between bytecodes; the statements of these functions are single reads/writes or lock operations)",
]
TECHNIQUE = "runtime monitoring: controlled scheduling of the real functions (sys.monitoring), invariant checked after every step; exhaustive within the listed program tuples"

PROGRAMS = [
    ["E", "X"],
    ["E", "E", "X", "X"],
    ["E", "X", "E", "X"],
    [("C", "ok")],
    [("C", "raise")],
    [("C", "nested")],
    ["E", ("C", "ok"), "X"],
    [("C", "ok"), ("C", "raise")],
    ["E", "X", ("C", "nested")],
]
SHORT = [["E", "X"], [("C", "ok")], [("C", "raise")], ["E", "E", "X", "X"]]


def floors(tier):
    q = tier == "quick"
    return {"schedules": 15000 if q else 400000, "states": 10000 if q else 250000, "explorations_complete": 60 if q else 200, "line_events": 10**6, "real_guard_exits": 2000 if q else 20000, "real_overlap_observed": 1, "calls_left:callback-changes-sigint-handler": 20, "calls_left:callback-raises": 20}


def plan(tier, seed):
    q = tier == "quick"
    pairs = list(itertools.combinations_with_replacement(range(len(PROGRAMS)), 2))
    S = []
    nsh = 12 if q else 14
    for i in range(nsh):
        S.append({"kind": "dfs2", "part": i, "of": nsh, "pairs": [p for j, p in enumerate(pairs) if j % nsh == i], "variants": 2 if q else 4})
    triples = list(itertools.combinations_with_replacement(range(len(SHORT)), 3))
    if q:
        S.append({"kind": "dfs3", "part": 0, "triples": triples[:1]})
    else:
        for i in range(10):
            S.append({"kind": "dfs3", "part": i, "triples": [t for j, t in enumerate(triples) if j % 10 == i]})
    S += [{"kind": "rand", "stream": i, "n": 400 if q else 6000} for i in range(2 if q else 6)]
    S += [{"kind": "real", "stream": i, "threads": t, "n": 60 if q else 400} for i, t in enumerate((4, 8) if q else (2, 4, 8, 16))]
    S += [{"kind": "leave", "stream": 0, "n": 20 if q else 200}]
    return S


def _pre_stale(s):
    """a first call while the collector is enabled, then the application disables the collector"""
    s.model.enabled = True
    s.bz3._enter_z3()
    s.bz3._exit_z3()
    s.model.enabled = False
    s.gc_initial = False


def _pre_stale_rev(s):
    s.model.enabled = False
    s.bz3._enter_z3()
    s.bz3._exit_z3()
    s.model.enabled = True
    s.gc_initial = True


VARIANTS = [("gc-on", True, None), ("gc-off", False, None), ("call-then-app-disables", True, _pre_stale), ("call-then-app-enables", False, _pre_stale_rev)]


def _report(res, s, programs, variant, kind):
    res.violation({"kind": "gc-guard", "mon": "M-sched", "what": s.violation, "programs": programs, "variant": variant, "schedule": [d[3] for d in s.decisions], "trace_tail": [[t, list(p)] for t, p in s.trace[-25:]], "shard": kind, "counter": s.bz3._active_z3_calls, "collector": s.model.enabled, "collector_log": s.model.log[-10:]})


def run_shard(spec, res):
    kind = spec["kind"]
    rng = random.Random(f"{spec['seed']}:{PID}:{kind}:{spec.get('stream')}:{spec.get('part')}")
    if kind == "real":
        real_shard(spec, res, rng)
        return
    if kind == "leave":
        leave_shard(spec, res, rng)
        return
    from vf.mon import sched

    h = sched.Harness()
    try:
        if kind in ("dfs2", "dfs3"):
            tuples = spec["pairs"] if kind == "dfs2" else spec["triples"]
            src = PROGRAMS if kind == "dfs2" else SHORT
            for tup in tuples:
                programs = [src[i] for i in tup]
                for name, gc0, pre in VARIANTS[: spec.get("variants", 2)]:
                    st, bad = sched.explore(h, programs, gc0, pre=pre)
                    res.count("schedules", st["schedules"])
                    res.count("states", st["states"])
                    res.count("explorations")
                    if st["complete"]:
                        res.count("explorations_complete")
                    res.setadd("max_decisions", st["max_decisions"])
                    res.case([programs, name], True, sample={"programs": programs, "variant": name, "schedules": st["schedules"], "states": st["states"]})
                    res.distinct.add(f"{tup}:{name}:{st['schedules']}")
                    if bad is not None:
                        _report(res, bad, programs, name, kind)
        elif kind == "rand":
            for i in range(spec["n"]):
                nthreads = rng.choice([3, 4])
                programs = [rng.choice(PROGRAMS) + (rng.choice(PROGRAMS) if rng.random() < 0.4 else []) for _ in range(nthreads)]
                name, gc0, pre = rng.choice(VARIANTS)
                s = h.execute(programs, gc0, (), rng=rng, pre=pre)
                res.count("schedules")
                res.count("random_schedules")
                res.case([programs, name, [d[3] for d in s.decisions]], len(s.decisions) > 0)
                if s.violation:
                    _report(res, s, programs, name, kind)
        res.count("line_events", h.line_events)
    finally:
        h.close()


def real_shard(spec, res, rng):
    """real threads, real lock, real collector: passive monitor at every exit of the guard"""
    import gc
    import sys
    import threading

    import claripy
    import claripy.backends.backend_z3 as bz3

    events = {"exits": 0, "bad": [], "max_active": 0}
    orig_exit = bz3._exit_z3

    def checked_exit():
        # read under the lock the guard itself uses
        with bz3._gc_lock:
            events["exits"] += 1
            events["max_active"] = max(events["max_active"], bz3._active_z3_calls)
            if gc.isenabled() or bz3._active_z3_calls < 1:
                events["bad"].append((gc.isenabled(), bz3._active_z3_calls))
        orig_exit()

    bz3._exit_z3 = checked_exit
    old_si = sys.getswitchinterval()
    try:
        for gc0 in (True, False):
            (gc.enable if gc0 else gc.disable)()
            sys.setswitchinterval(rng.choice([1e-6, 1e-5, 1e-4]))
            errors = []
            barrier = threading.Barrier(spec["threads"])

            def work(k):
                try:
                    r = random.Random(f"{spec['seed']}:{k}")
                    x = claripy.BVS(f"gx{k}", 16)
                    barrier.wait()
                    for j in range(spec["n"]):
                        s = claripy.Solver()
                        v = r.getrandbits(16)
                        s.add(x * 3 + j == v)
                        s.satisfiable()
                        s.eval(x, 2)
                        if j % 7 == 0:
                            s.max(x)
                except Exception as e:  # noqa: BLE001
                    errors.append(repr(e)[:200])

            ths = [threading.Thread(target=work, args=(k,)) for k in range(spec["threads"])]
            for t in ths:
                t.start()
            for t in ths:
                t.join(timeout=600)
            res.count("real_runs")
            res.case(["real", spec["threads"], gc0, spec["stream"]], True)
            if any(t.is_alive() for t in ths):
                res.inconc("a real-thread run did not finish within its watchdog")
            if errors:
                res.count("real_thread_errors", len(errors))
                res.setadd("real_thread_errors", errors[0])
            if gc.isenabled() != gc0 or bz3._active_z3_calls != 0:
                res.violation({"kind": "gc-guard", "mon": "M-gcinv", "what": "state after all real threads returned", "collector": gc.isenabled(), "expected_collector": gc0, "counter": bz3._active_z3_calls, "threads": spec["threads"]})
        res.count("real_guard_exits", events["exits"])
        if events["max_active"] >= 2:
            res.count("real_overlap_observed")
        res.setadd("real_max_concurrent_calls", events["max_active"])
        if events["bad"]:
            res.violation({"kind": "gc-guard", "mon": "M-gcinv", "what": "collector enabled or count < 1 at the end of a call", "observed": events["bad"][:5], "threads": spec["threads"]})
    finally:
        bz3._exit_z3 = orig_exit
        sys.setswitchinterval(old_si)
        gc.enable()


def leave_shard(spec, res, rng):
    """every way a call can be left: returning, a solver error, an exception raised by the caller's own model callback,
    and a callback that changes the process's SIGINT handler while the call is running (the guard's wrapper puts its
    own handler back at the end).  After each call: nothing in progress, collector as before."""
    import gc
    import signal

    import claripy
    import claripy.backends.backend_z3 as bz3

    b = claripy.backends.z3
    x = claripy.BVS("lv", 32)

    class Boom(Exception):
        pass

    def cb_raise(_m):
        raise Boom

    def cb_sigint(_m):
        signal.signal(signal.SIGINT, lambda *_a: None)

    def cb_nested(_m):
        s2 = b.solver()
        b.add(s2, [x == 7])
        b.satisfiable(solver=s2, model_callback=cb_sigint if rng.random() < 0.5 else cb_raise)

    inside = []

    def cb_evict(_m):
        # conversions and abstractions while the outer call is running, with a conversion cache so small that every one
        # of them evicts an older entry
        for j in range(12):
            b.simplify(x + j + claripy.BVS(f"ev{j}", 32, explicit_name=True))
        inside.append(gc.isenabled())

    def bad_add(s_):
        b.add(s_, [x + 1])  # not a Boolean: the backend raises while adding

    def bad_eval(s_):
        b.eval(claripy.BVS("other_sort", 8) == 1, 1, solver=s_, extra_constraints=[x + 1])

    b._ast_cache_size = 4
    b._tls.__dict__.pop("ast_cache", None)
    ways = [("return", None), ("callback-raises", cb_raise), ("callback-changes-sigint-handler", cb_sigint), ("nested-call-left-by-exception", cb_nested), ("cache-evictions-during-the-call", cb_evict), ("backend-add-raises", bad_add), ("backend-eval-raises", bad_eval)]
    old_handler = signal.getsignal(signal.SIGINT)
    try:
        for i in range(spec["n"]):
            for gc0 in (True, False):
                for name, cb in ways:
                    (gc.enable if gc0 else gc.disable)()
                    signal.signal(signal.SIGINT, old_handler)
                    s = b.solver()
                    b.add(s, [x == i])
                    how = "returned"
                    del inside[:]
                    try:
                        op = rng.choice(["satisfiable", "eval"])
                        if name.startswith("backend-"):
                            cb(s)
                        elif op == "satisfiable":
                            b.satisfiable(solver=s, model_callback=cb)
                        else:
                            b.eval(x, 1, solver=s, model_callback=cb)
                    except Boom:
                        how = "Boom"
                    except AssertionError:
                        how = "AssertionError"
                    except claripy.errors.ClaripyError as e:
                        how = type(e).__name__
                    except Exception as e:  # noqa: BLE001
                        if not name.startswith("backend-"):
                            raise
                        how = type(e).__name__
                    res.count("calls_left:" + name)
                    if any(inside):
                        res.violation({"kind": "gc-guard", "mon": "M-gcinv", "what": "collector enabled while a call is in progress", "way": name, "observed": list(inside), "expected_collector": gc0})
                    res.setadd("ways_calls_were_left", f"{name}:{how}")
                    res.case(["leave", name, gc0, i], True)
                    if gc.isenabled() != gc0 or bz3._active_z3_calls != 0:
                        res.violation({"kind": "gc-guard", "mon": "M-gcinv", "what": "state after a call was left", "way": name, "left_by": how, "collector": gc.isenabled(), "expected_collector": gc0, "counter": bz3._active_z3_calls})
                        # put the guard back so that the following cases are judged on their own
                        bz3._active_z3_calls = 0
                        bz3._gc_was_enabled = False
    finally:
        signal.signal(signal.SIGINT, old_handler)
        gc.enable()


def replay(w, res):
    from vf.mon import sched

    if w.get("mon") != "M-sched":
        res.inconc("real-thread witnesses are not replayable (schedule chosen by the OS)")
        return
    variant = {v[0]: v for v in VARIANTS}[w["variant"]]
    programs = [[tuple(op) if isinstance(op, list) else op for op in p] for p in w["programs"]]
    h = sched.Harness()
    try:
        s = h.execute(programs, variant[1], w["schedule"], pre=variant[2])
        res.count("schedules")
        if s.violation:
            _report(res, s, programs, variant[0], "replay")
    finally:
        h.close()
