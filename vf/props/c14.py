"""C14 — branches of a solver are isolated from each other."""
from __future__ import annotations

import random
import traceback

PID = "C14"
LEVEL = "exploration"
RULE = (
    "a case is one history over a tree of solvers obtained by branch() at random points (depth <= 3, <= 6 live "
    "solvers), with adds, all query kinds, simplify, downsize and further branching interleaved across the branches, "
    "for each of the eight frontend classes.  Two monitors: (1) M-api judges every answer of the exact classes "
    "against the reference over *that* solver's own constraint list; (2) probe pairs - a fixed probe (complete "
    "enumeration of three expressions, the four optima, satisfiable with and without extra constraints) is asked on "
    "one solver s, then k random operations run on a different solver of the tree (a branch of s or the solver s was "
    "branched from), then the probe is asked on s again: the two probe results must be equal.  The probe only "
    "contains answers that are functions of the model set, so a difference means state leaked between branches.  "
    "Non-trivial: at least one branch step and one add on each side; distinct by history hash."
    " Session 4: directed opening (independent constraints, non-exhausting spanning query, branch, connecting add, same variable set asked on the other side)."
)
ASSUMPTIONS = ["approximate frontends (SolverVSA, SolverHybrid) are judged by the probe pairs only, not against the reference"]

CLASSES = ["Solver", "SolverCacheless", "SolverComposite", "SolverReplacement", "SolverHybrid", "SolverVSA", "SolverConcrete", "SolverStrings"]
EXACT = {"Solver", "SolverCacheless", "SolverComposite", "SolverStrings", "SolverReplacement", "SolverHybrid"}


def floors(tier):
    return {"probe_pairs": 400 if tier == "quick" else 6000, "histories": 150, "op:branch": 300, "probe_pairs_with_adds_on_other_branch": 200}


def plan(tier, seed):
    q = tier == "quick"
    S = []
    for cls in CLASSES:
        for i in range(2 if q else 6):
            S.append({"kind": "tree", "cls": cls, "stream": i, "n": 30 if q else 300, "env": {"REUSE_Z3_SOLVER": str(i % 2)}})
    return S


def run_shard(spec, res):
    import claripy

    from vf.gen import histories as H
    from vf.mon import api

    rng = random.Random(f"{spec['seed']}:{PID}:{spec['cls']}:{spec.get('stream')}")
    cls = getattr(claripy, spec["cls"])
    cfg = {"cls": spec["cls"], "reuse": int(spec["env"]["REUSE_Z3_SOLVER"])}
    mode = "exact" if spec["cls"] in EXACT else "none"
    keep = []
    for it in range(spec["n"]):
        al = H.Alphabet(rng, w=rng.choice([3, 3, 4]), nvars=rng.choice([2, 3]), nbools=0)
        run = api.Run(res, al.vars, cls, PID, mode=mode, cfg=cfg, keep=keep)
        exprs = [al.v(0), al._expr(), al._expr()]
        bools = [al.constraint()]
        nlive = 1
        pairs = 0
        try:
            if al.nvars >= 2 and rng.random() < 0.35:
                # directed opening: independent constraints, a query spanning them that does not exhaust anything
                # (solvers that split by variable build a combined solver for it), a branch, a constraint connecting
                # the variables on one side, the same variable set asked about on the other side
                x_, y_ = al.v(0), al.v(1)
                sm = ["add", x_, y_]
                M = (1 << al.w) - 1
                run.step({"op": "add", "s": 0, "cons": [["ult", x_, ["bvv", rng.randrange(2, M + 1), al.w]]]})
                run.step({"op": "add", "s": 0, "cons": [["ult", y_, ["bvv", rng.randrange(2, M + 1), al.w]]]})
                for _ in range(rng.choice([1, 2])):
                    run.step(rng.choice([
                        {"op": "solution", "s": 0, "e": sm, "v": rng.randrange(0, 4), "extra": []},
                        {"op": "satisfiable", "s": 0, "extra": [["eq", sm, ["bvv", rng.randrange(0, 4), al.w]]]},
                        {"op": "eval", "s": 0, "e": sm, "n": 1, "extra": []},
                        {"op": "is_true", "s": 0, "e": ["eq", sm, ["bvv", rng.getrandbits(al.w), al.w]], "extra": []},
                    ]))
                run.step({"op": "branch", "s": 0})
                nlive = len(run.live)
                a_ = rng.randrange(2)
                run.step({"op": "add", "s": a_, "cons": [["eq", sm, ["bvv", rng.randrange(0, 4), al.w]]]})
                for st_ in ({"op": "eval", "e": sm, "n": 70}, {"op": "max", "e": sm, "signed": False}, {"op": "solution", "e": x_, "v": 0}, {"op": "satisfiable"}, {"op": "eval", "e": x_, "n": 70}):
                    run.step({**st_, "s": 1 - a_, "extra": []})
                    run.step({**st_, "s": a_, "extra": []})
                res.count("directed_openings")
            if al.nvars >= 2 and rng.random() < 0.2 and not run.failed:
                # a bystander: a copy of a solver that is later made unsatisfiable by the constant False and merged with
                # a relative - the copy was not part of any of it
                x_, y_ = al.v(0), al.v(1)
                base_i = 0
                run.step({"op": "add", "s": base_i, "cons": [["ugt", x_, ["bvv", 1, al.w]]]})
                run.step({"op": "branch", "s": base_i})
                b_i = len(run.live) - 1
                if rng.random() < 0.8:
                    run.step({"op": "add", "s": b_i, "cons": [["ult", y_, ["bvv", (1 << al.w) - 2, al.w]]]})
                run.step({"op": "branch", "s": b_i})
                keep_i = len(run.live) - 1
                run.step({"op": "add", "s": b_i, "cons": [["boolv", False]]})
                run.step({"op": "branch", "s": base_i})
                o_i = len(run.live) - 1
                run.step({"op": "add", "s": o_i, "cons": [[rng.choice(["ugt", "ne"]), y_, ["bvv", 2, al.w]]]})
                nlive = len(run.live)
                pb = api.probe(run.live[keep_i].solver, exprs, bools, run.b)
                first, second = (b_i, o_i) if rng.random() < 0.5 else (o_i, b_i)
                try:
                    run.live[first].solver.merge([run.live[second].solver], [run.b(["boolv", True]), run.b(["eq", x_, ["bvv", 2, al.w]])])
                    res.count("bystander_merges")
                except claripy.errors.ClaripyError as e_:
                    res.count("bystander_merge_raised:" + type(e_).__name__)
                pa = api.probe(run.live[keep_i].solver, exprs, bools, run.b)
                res.count("probe_pairs")
                if pa != pb:
                    run.viol({"op": "probe", "s": keep_i, "other": [first, second]}, "answers-changed-by-operations-on-another-branch", before=pb, after=pa, differing=[(a_, b_) for a_, b_ in zip(pb, pa) if a_ != b_][:6], exprs=exprs, scenario="merge of relatives")
            for step_i in range(rng.choice([8, 14, 22])):
                k = rng.random()
                s = rng.randrange(nlive)
                if k < 0.22 and nlive < 6:
                    run.step({"op": "branch", "s": s})
                    nlive = len(run.live)
                elif k < 0.45:
                    run.step({"op": "add", "s": s, "cons": [al.constraint() for _ in range(rng.choice([1, 1, 2]))]})
                elif k < 0.50:
                    run.step({"op": rng.choice(["simplify", "downsize"]), "s": s})
                elif k < 0.72 and nlive >= 2:
                    # probe pair: probe s, disturb another solver of the tree, probe s again
                    other = rng.choice([j for j in range(nlive) if j != s])
                    # (a hybrid solver has a second, approximate half with state of its own: its answers are probed too)
                    qkw = {"exact": False} if spec["cls"] == "SolverHybrid" and step_i % 2 else None
                    if qkw:
                        res.count("approximate_probe_pairs")
                    p1 = api.probe(run.live[s].solver, exprs, bools, run.b, qkw=qkw)
                    had_add = False
                    for _ in range(rng.choice([1, 2, 4])):
                        kk = rng.random()
                        if spec["cls"] == "SolverReplacement" and rng.random() < 0.25:
                            # the replacement solver's own operation, in its in-place flavour
                            x_ = al.v()
                            try:
                                run.live[other].solver.add_replacement(run.b(x_), claripy.BVV(rng.getrandbits(al.w), al.w), invalidate_cache=False)
                                run.live[other].tainted = True  # the reference is not told: that solver is only probed from now on
                                run.log.append([run.clock, other, {"op": "add_replacement(invalidate_cache=False)", "s": other, "e": x_}, ["ok", None]])
                                res.count("in_place_replacements")
                                had_add = True
                            except claripy.errors.ClaripyError:
                                pass
                            continue
                        if kk < 0.45:
                            # (range constraints are what the approximate half turns into bounds)
                            c_ = al.constraint() if rng.random() < 0.6 else [rng.choice(["ule", "uge", "ult", "ugt"]), al.v(), al.k()]
                            run.step({"op": "add", "s": other, "cons": [c_]})
                            had_add = True
                        elif kk < 0.55:
                            run.step({"op": rng.choice(["simplify", "downsize"]), "s": other})
                        elif kk < 0.62 and nlive < 6:
                            run.step({"op": "branch", "s": other})
                            nlive = len(run.live)
                        elif kk < 0.72 and spec["cls"] not in ("SolverVSA", "SolverConcrete"):
                            # the other solver is used once from a worker thread (joined at once: nothing runs in
                            # parallel), then again from this one
                            import threading

                            st_ = H.query_step(al, rng, other)
                            th_ = threading.Thread(target=run.step, args=(st_,))
                            th_.start()
                            th_.join(timeout=300)
                            res.count("steps_in_a_worker_thread")
                            c_ = al.constraint()
                            run.step({"op": "add", "s": other, "cons": [c_]})
                            had_add = True
                            run.step(H.query_step(al, rng, other))
                        else:
                            run.step(H.query_step(al, rng, other))
                    p2 = api.probe(run.live[s].solver, exprs, bools, run.b, qkw=qkw)
                    pairs += 1
                    res.count("probe_pairs")
                    if had_add:
                        res.count("probe_pairs_with_adds_on_other_branch")
                    if p1 != p2:
                        diffs = [(a, b) for a, b in zip(p1, p2) if a != b]
                        run.viol({"op": "probe", "s": s, "other": other}, "answers-changed-by-operations-on-another-branch", before=p1, after=p2, differing=diffs[:6], exprs=exprs)
                else:
                    run.step(H.query_step(al, rng, s))
                if run.failed:
                    break
        except Exception as e:  # noqa: BLE001
            res.violation({"kind": "history", "what": "harness-or-solver-exception", "config": cfg, "observed": repr(e)[:300], "tb": traceback.format_exc()[-1500:], "history": run.log[-30:]})
        res.count("histories")
        res.case([cfg, [e[2] for e in run.log]], nontrivial=pairs > 0, sample={"config": cfg, "steps": [e[2] for e in run.log][:6], "probe_pairs": pairs})
        del keep[:]


def replay(w, res):
    res.inconc("C14 replay: python -m vf.core.shrink <witness> (probe steps are re-run as recorded)")
