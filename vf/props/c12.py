"""C12 — SolverComposite answers like a monolithic solver after any history."""
from __future__ import annotations

import random

PID = "C12"
LEVEL = "exploration"
RULE = (
    "a case is one history on a real SolverComposite (plain and tracked), with the C11 step alphabet plus branch, "
    "split, combine and merge (with and without a common ancestor) steps across up to 6 live composite solvers; the "
    "constraint alphabet is over four 3-bit variables so that constraints on {x}, {y}, {x,y}, {y,z}, {z,w}, concrete "
    "True/False and constraints that fold while building connect and disconnect the children's variable groups in "
    "every order.  Monitor M-api judges every answer against the stateless reference (exact model set by "
    "enumeration over the 12 variable bits) over the solver's documented constraint set (for merged/combined "
    "solvers: the documented formula).  The monitor also records the partition (children's variable sets) after each "
    "step; evidence lists the distinct partitions seen.  Non-trivial: at least one add and one judged query; "
    "distinct by history hash."
)
ASSUMPTIONS = ["same scoping as C11 for unsatisfiable stores and variable-free expressions"]


def floors(tier):
    return {"answers_judged": 3000 if tier == "quick" else 40000, "histories": 150, "partitions_seen": 8, "op:branch": 50, "op:merge": 20, "op:combine": 20, "op:split": 20}


def plan(tier, seed):
    q = tier == "quick"
    S = []
    for reuse in (0, 1):
        for i in range(6 if q else 16):
            S.append({"kind": "rand", "reuse": reuse, "track": i % 2, "stream": i, "n": 100 if q else 700, "env": {"REUSE_Z3_SOLVER": str(reuse)}})
    return S


def composite_history(rng, al, length):
    from vf.gen import histories as H

    steps = []
    n = 1
    for _ in range(length):
        s = rng.randrange(n)
        k = rng.random()
        if k < 0.30:
            steps.append({"op": "add", "s": s, "cons": [al.constraint() for _ in range(rng.choice([1, 1, 2, 3]))]})
        elif k < 0.38 and n < 6:
            steps.append({"op": "branch", "s": s})
            n += 1
        elif k < 0.43:
            steps.append({"op": rng.choice(["simplify", "simplify", "downsize"]), "s": s})
        elif k < 0.47:
            steps.append({"op": "split", "s": s})
        elif k < 0.51 and 1 < n < 6:
            others = rng.sample([j for j in range(n) if j != s], rng.choice([1, min(2, n - 1)]))
            steps.append({"op": "combine", "s": s, "others": others})
            n += 1
        elif k < 0.56 and 1 < n < 6:
            others = rng.sample([j for j in range(n) if j != s], rng.choice([1, min(2, n - 1)]))
            conds = [rng.choice([["boolv", True], al.constraint(), ["eq", ["bvs", "guard3", 3], ["bvv", i, 3]]]) for i in range(len(others) + 1)]
            anc = rng.choice([None, None, 0])
            steps.append({"op": "merge", "s": s, "others": others, "conds": conds, "anc": anc})
            n += 1
        else:
            steps.append(H.query_step(al, rng, s))
    x, y = al.v(0), al.v(1 % al.nvars)
    m = (1 << al.w) - 1
    k = rng.random()
    if k < 0.25:
        # children enumerated on their own, then joined by a constraint that most cached models satisfy
        a_, b_ = al.k(), al.k()
        pat = [
            {"op": "add", "s": 0, "cons": [["ule", x, ["bvv", rng.choice([2, 3, m // 2]), al.w]]]},
            {"op": "add", "s": 0, "cons": [["uge", y, ["bvv", rng.choice([m - 2, m - 3, m // 2]), al.w]]]},
            {"op": "eval", "s": 0, "e": x, "n": 70, "extra": []},
            {"op": "eval", "s": 0, "e": y, "n": 70, "extra": []},
            {"op": rng.choice(["max", "min"]), "s": 0, "e": y, "signed": False, "extra": []},
            {"op": "add", "s": 0, "cons": [rng.choice([["bor", ["ne", x, a_], ["ne", y, b_]], ["ne", ["add", x, y], a_], ["bor", ["ult", x, y], ["eq", x, a_]]])]},
            {"op": "eval", "s": 0, "e": y, "n": 70, "extra": []},
            {"op": "eval", "s": 0, "e": x, "n": 70, "extra": []},
            {"op": "min", "s": 0, "e": y, "signed": False, "extra": []},
            {"op": "max", "s": 0, "e": x, "signed": False, "extra": []},
            {"op": "batch_eval", "s": 0, "es": [x, y], "n": 300, "extra": []},
        ]
        pos = rng.randrange(0, min(3, len(steps) + 1))
        steps[pos:pos] = pat
    elif k < 0.45:
        # a merge of three whose first two share a child that the third never had
        g = ["bvs", "guard3", 3]
        base = len([1 for st in steps if st["op"] in ("branch", "combine", "merge")]) + 1  # index the next new solver gets
        pat = [
            {"op": "add", "s": 0, "cons": [["ugt", x, ["bvv", 0, al.w]]]},
            {"op": "branch", "s": 0},  # base+0: t
            {"op": "add", "s": base, "cons": [["ult", x, ["bvv", rng.choice([3, 5, m]), al.w]]]},
            {"op": "branch", "s": base},  # base+1
            {"op": "branch", "s": base},  # base+2
            {"op": "branch", "s": 0},  # base+3 : from the weaker solver
            {"op": "add", "s": base + 1, "cons": [al.constraint()]},
            {"op": "merge", "s": base + 1, "others": [base + 2, base + 3], "conds": [["eq", g, ["bvv", i, 3]] for i in range(3)], "anc": None},  # base+4
            {"op": "max", "s": base + 4, "e": x, "signed": False, "extra": []},
            {"op": "eval", "s": base + 4, "e": x, "n": 70, "extra": []},
            {"op": "satisfiable", "s": base + 4, "extra": [["eq", x, ["bvv", m, al.w]]]},
            {"op": "eval", "s": base + 4, "e": g, "n": 9, "extra": [["eq", x, ["bvv", m, al.w]]]},
            {"op": "merge", "s": base + 3, "others": [base + 1, base + 2], "conds": [rng.choice([["boolv", True], ["eq", g, ["bvv", i, 3]]]) for i in range(3)], "anc": None},  # base+5
            {"op": "min", "s": base + 5, "e": x, "signed": False, "extra": []},
            {"op": "eval", "s": base + 5, "e": x, "n": 70, "extra": []},
        ]
        steps = steps + pat if base + 5 < 12 else steps
    return steps


def run_shard(spec, res):
    import claripy

    from vf.gen import histories as H
    from vf.mon import api
    from vf.props import c11

    rng = random.Random(f"{spec['seed']}:{PID}:{spec['kind']}:{spec.get('reuse')}:{spec.get('stream')}")
    track = bool(spec.get("track"))
    cfg = {"cls": "SolverComposite", "reuse": int(spec["reuse"]), "track": track}
    assert claripy.backends.z3.reuse_z3_solver == (spec["env"]["REUSE_Z3_SOLVER"] == "1")

    def make():
        return claripy.SolverComposite(track=True) if track else claripy.SolverComposite()

    keep = []
    for i in range(spec["n"]):
        al = H.Alphabet(rng, w=3, nvars=rng.choice([3, 4, 4]), nbools=rng.choice([0, 0, 1]), allow_div=(i % 9 == 0))
        steps = composite_history(rng, al, rng.choice([6, 10, 16, 25, 40]))
        run = api.Run(res, al.vars, make, PID, cfg=cfg, keep=keep)
        for st in steps:
            if st["s"] >= len(run.live):
                continue
            run.step(st)
            s = run.live[st["s"]].solver
            try:
                part = sorted(sorted(x.variables) for x in s._solver_list)
                res.setadd("partitions", repr(part), cap=400)
                res.setadd("owned_counts", repr((len(s._solver_list), len(list(s._owned_solvers)), len(list(s._unchecked_solvers)), s._unsat)), cap=200)
            except Exception:  # noqa: BLE001
                pass
            if run.failed:
                break
        res.count("histories")
        nontrivial = any(x["op"] == "add" for x in steps) and any(x["op"] in ("eval", "min", "max", "satisfiable", "solution", "batch_eval") for x in steps)
        res.case([cfg, steps], nontrivial, sample={"config": cfg, "steps": steps[:6]})
        del keep[:]
    res.count("partitions_seen", len(res.sets.get("partitions", ())))


def replay(w, res):
    res.inconc("C12 replay: use /verif/vf/core/shrink.py on the witness")
