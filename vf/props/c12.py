"""C12 — SolverComposite answers like a monolithic solver after any history."""
from __future__ import annotations

import random

PID = "C12"
LEVEL = "exploration"
RULE = (
    "a case is one history on a real SolverComposite (plain and tracked), with the C11 step alphabet plus branch, "
    "split, combine and merge (with and without a common ancestor) steps across up to 6 live composite solvers; the "
    "constraint alphabet is over four 3-bit variables so that constraints on {x}, {y}, {x,y}, {y,z}, {z,w}, concrete "
    "True/False and constraints that fold while building connect and disconnect the children's variable groups in "
    "every order.  Monitor M-api judges every answer against the stateless reference (exact model set by "
    "enumeration over the 12 variable bits) over the solver's documented constraint set (for merged/combined "
    "solvers: the documented formula).  The monitor also records the partition (children's variable sets) after each "
    "step; evidence lists the distinct partitions seen.  Non-trivial: at least one add and one judged query; "
    "distinct by history hash."
)
ASSUMPTIONS = ["same scoping as C11 for unsatisfiable stores and variable-free expressions"]


def floors(tier):
    return {"answers_judged": 3000 if tier == "quick" else 40000, "histories": 150, "partitions_seen": 8, "op:branch": 50, "op:merge": 20, "op:combine": 20, "op:split": 20}


def plan(tier, seed):
    q = tier == "quick"
    S = []
    for reuse in (0, 1):
        for i in range(6 if q else 16):
            S.append({"kind": "rand", "reuse": reuse, "track": i % 2, "stream": i, "n": 100 if q else 700, "env": {"REUSE_Z3_SOLVER": str(reuse)}})
    return S


def composite_history(rng, al, length):
    from vf.gen import histories as H

    steps = []
    n = 1
    for _ in range(length):
        s = rng.randrange(n)
        k = rng.random()
        if k < 0.30:
            steps.append({"op": "add", "s": s, "cons": [al.constraint() for _ in range(rng.choice([1, 1, 2, 3]))]})
        elif k < 0.38 and n < 6:
            steps.append({"op": "branch", "s": s})
            n += 1
        elif k < 0.43:
            steps.append({"op": rng.choice(["simplify", "simplify", "downsize"]), "s": s})
        elif k < 0.47:
            steps.append({"op": "split", "s": s})
        elif k < 0.51 and 1 < n < 6:
            others = rng.sample([j for j in range(n) if j != s], rng.choice([1, min(2, n - 1)]))
            steps.append({"op": "combine", "s": s, "others": others})
            n += 1
        elif k < 0.56 and 1 < n < 6:
            others = rng.sample([j for j in range(n) if j != s], rng.choice([1, min(2, n - 1)]))
            conds = [rng.choice([["boolv", True], al.constraint(), ["eq", ["bvs", "guard3", 3], ["bvv", i, 3]]]) for i in range(len(others) + 1)]
            anc = rng.choice([None, None, 0])
            steps.append({"op": "merge", "s": s, "others": others, "conds": conds, "anc": anc})
            n += 1
        else:
            steps.append(H.query_step(al, rng, s))
    return steps


def run_shard(spec, res):
    import claripy

    from vf.gen import histories as H
    from vf.mon import api
    from vf.props import c11

    rng = random.Random(f"{spec['seed']}:{PID}:{spec['kind']}:{spec.get('reuse')}:{spec.get('stream')}")
    track = bool(spec.get("track"))
    cfg = {"cls": "SolverComposite", "reuse": int(spec["reuse"]), "track": track}
    assert claripy.backends.z3.reuse_z3_solver == (spec["env"]["REUSE_Z3_SOLVER"] == "1")

    def make():
        return claripy.SolverComposite(track=True) if track else claripy.SolverComposite()

    keep = []
    for i in range(spec["n"]):
        al = H.Alphabet(rng, w=3, nvars=rng.choice([3, 4, 4]), nbools=rng.choice([0, 0, 1]), allow_div=(i % 9 == 0))
        steps = composite_history(rng, al, rng.choice([6, 10, 16, 25, 40]))
        run = api.Run(res, al.vars, make, PID, cfg=cfg, keep=keep)
        for st in steps:
            if st["s"] >= len(run.live):
                continue
            run.step(st)
            s = run.live[st["s"]].solver
            try:
                part = sorted(sorted(x.variables) for x in s._solver_list)
                res.setadd("partitions", repr(part), cap=400)
                res.setadd("owned_counts", repr((len(s._solver_list), len(list(s._owned_solvers)), len(list(s._unchecked_solvers)), s._unsat)), cap=200)
            except Exception:  # noqa: BLE001
                pass
            if run.failed:
                break
        res.count("histories")
        nontrivial = any(x["op"] == "add" for x in steps) and any(x["op"] in ("eval", "min", "max", "satisfiable", "solution", "batch_eval") for x in steps)
        res.case([cfg, steps], nontrivial, sample={"config": cfg, "steps": steps[:6]})
        del keep[:]
    res.count("partitions_seen", len(res.sets.get("partitions", ())))


def replay(w, res):
    res.inconc("C12 replay: use /verif/vf/core/shrink.py on the witness")
